(* The lane theorem for apply_along_axis (C08) and the lemmas it rests on: splitting a flat array into equal
   chunks, the axis-to-last / last-to-axis transposes as coordinate maps, re-assembly of lane results. *)
From ArrRs Require Import Index Index_proofs Lists_proofs Axis Axis_proofs Reshape_proofs Prog_proofs Broadcast_proofs Split Lift Reduce Reduce_proofs.

(* ---------- coordinates: snoc, insert, remove ---------- *)
Lemma flat_snoc sh c d k : length c = length sh -> flat (sh ++ [d]) (c ++ [k]) = flat sh c * d + k.
Proof.
  revert c; induction sh as [|e sh IH]; intros [|i c] L; cbn in L; try discriminate.
  - cbn. lia.
  - injection L as L. cbn [app flat]. rewrite IH by auto. rewrite prod_app. cbn [prod]. lia.
Qed.

Lemma in_range_snoc sh c d k : in_range sh c -> k < d -> in_range (sh ++ [d]) (c ++ [k]).
Proof.
  revert c; induction sh as [|e sh IH]; intros [|i c] H Hk; cbn in *; try tauto.
  destruct H. split; auto.
Qed.

Lemma in_range_insert sh c ax d k : ax <= length sh -> in_range sh c -> k < d ->
  in_range (insert_nth sh ax d) (insert_nth c ax k).
Proof.
  revert c ax; induction sh as [|e sh IH]; intros [|i c] [|ax] L H Hk; cbn in *; try tauto; try lia.
  destruct H. split; auto. apply IH; auto. lia.
Qed.

Lemma in_range_remove sh c ax : in_range sh c -> in_range (remove_nth sh ax) (remove_nth c ax).
Proof.
  revert c ax; induction sh as [|e sh IH]; intros [|i c] [|ax] H; cbn in *; try tauto.
  destruct H. split; auto.
Qed.

Lemma insert_remove_nth {A} (l : list A) ax d : ax < length l -> insert_nth (remove_nth l ax) ax (nth ax l d) = l.
Proof.
  revert ax; induction l as [|h t IH]; intros [|ax] H; cbn in *; try lia.
  - destruct t; reflexivity.
  - f_equal. apply IH. lia.
Qed.

Lemma nth_insert_nth_eq {A} (l : list A) ax x d : ax <= length l -> nth ax (insert_nth l ax x) d = x.
Proof. apply nth_insert_nth. Qed.

Lemma remove_insert_nth' {A} (l : list A) ax x : ax <= length l -> remove_nth (insert_nth l ax x) ax = l.
Proof. apply remove_insert_nth. Qed.

Lemma insert_nth_end {A} (l : list A) x : insert_nth l (length l) x = l ++ [x].
Proof. induction l as [|h t IH]; cbn; auto. now rewrite IH. Qed.

Lemma upd_as_insert_remove {A} (l : list A) ax x : ax < length l -> upd l ax x = insert_nth (remove_nth l ax) ax x.
Proof.
  revert ax; induction l as [|h t IH]; intros [|ax] H; cbn in *; try lia.
  - destruct t; reflexivity.
  - f_equal. apply IH. lia.
Qed.

Lemma prod_remove_nth sh ax : ax < length sh -> prod sh = nth ax sh 0 * prod (remove_nth sh ax).
Proof.
  revert ax; induction sh as [|d sh IH]; intros [|ax] H; cbn in *; try lia.
  rewrite (IH ax) by lia. lia.
Qed.

Lemma pos_shape_remove sh ax : pos_shape sh -> pos_shape (remove_nth sh ax).
Proof.
  revert ax; induction sh as [|d sh IH]; intros [|ax] H; cbn; auto; inversion H; subst; auto. constructor; auto. apply IH; auto.
Qed.

Lemma pos_shape_prod sh : pos_shape sh -> 0 < prod sh.
Proof. induction 1; cbn; nia. Qed.

Lemma pos_shape_nth sh ax : pos_shape sh -> ax < length sh -> 0 < nth ax sh 0.
Proof. intros P H. unfold pos_shape in P. rewrite Forall_forall in P. apply P, nth_In, H. Qed.

(* ---------- the two axis orders used by apply_along_axis ---------- *)
Lemma pick_app p1 p2 c : pick (p1 ++ p2) c = pick p1 c ++ pick p2 c.
Proof. apply map_app. Qed.

Lemma nth_remove_nth {A} (l : list A) ax k d :
  nth k (remove_nth l ax) d = if k <? ax then nth k l d else nth (S k) l d.
Proof.
  revert ax k; induction l as [|h t IH]; intros ax k.
  - destruct (k <? ax); destruct ax, k; reflexivity.
  - destruct ax as [|ax]; cbn [remove_nth].
    + destruct k; reflexivity.
    + destruct k as [|k]; cbn [nth]; [reflexivity|]. rewrite IH.
      change (S k <? S ax) with (k <? ax). reflexivity.
Qed.

Lemma pick_remove_seq c ax : ax < length c -> pick (remove_nth (seq 0 (length c)) ax) c = remove_nth c ax.
Proof.
  intros H. apply (nth_ext _ _ 0 0).
  - rewrite pick_length, !remove_nth_length; rewrite ?seq_length; auto.
  - intros k Hk. rewrite pick_length, remove_nth_length, seq_length in Hk by (rewrite seq_length; auto).
    rewrite nth_pick by (rewrite remove_nth_length; rewrite seq_length; lia).
    rewrite !nth_remove_nth. destruct (Nat.ltb_spec k ax); rewrite seq_nth by lia; reflexivity.
Qed.

(* moving axis ax to the last position *)
Lemma rollaxis_order_to_last n ax : ax < n -> rollaxis_order n ax (n - 1) = remove_nth (seq 0 n) ax ++ [ax].
Proof.
  intros H. unfold rollaxis_order. rewrite <- insert_nth_end. f_equal.
  rewrite remove_nth_length; rewrite seq_length; auto.
Qed.

Lemma pick_to_last c ax : ax < length c ->
  pick (rollaxis_order (length c) ax (length c - 1)) c = remove_nth c ax ++ [nth ax c 0].
Proof. intros H. rewrite rollaxis_order_to_last by auto. rewrite pick_app, pick_remove_seq by auto. reflexivity. Qed.

(* moving the last axis to position ax *)
Lemma rollaxis_order_from_last n ax : 0 < n -> ax < n ->
  rollaxis_order n (n - 1) ax = insert_nth (seq 0 (n - 1)) ax (n - 1).
Proof.
  intros Hn H. unfold rollaxis_order. f_equal.
  replace n with (n - 1 + 1) at 1 by lia. rewrite seq_app. cbn [seq Nat.add].
  assert (forall (l : list nat) x, remove_nth (l ++ [x]) (length l) = l) as K.
  { induction l as [|h t IH]; intros x; cbn; auto. now rewrite IH. }
  rewrite <- (seq_length (n - 1) 0) at 3. apply K.
Qed.

Lemma pick_from_last c' ax : 0 < length c' -> ax < length c' ->
  pick (rollaxis_order (length c') (length c' - 1) ax) c' = insert_nth (removelast c') ax (last c' 0).
Proof.
  intros Hn H. rewrite rollaxis_order_from_last by auto.
  apply (nth_ext _ _ 0 0).
  - rewrite pick_length, !insert_nth_length, seq_length.
    assert (length (removelast c') = length c' - 1) as -> by (destruct c' using rev_ind; [cbn in Hn; lia | rewrite removelast_last, app_length; cbn; lia]).
    reflexivity.
  - intros k Hk. rewrite pick_length, insert_nth_length, seq_length in Hk.
    rewrite nth_pick by (rewrite insert_nth_length, seq_length; lia).
    destruct c' as [|x0 c0] using rev_ind; [cbn in Hn; lia|]. clear IHc0.
    rewrite removelast_last, last_last. rewrite app_length in *. cbn [length] in *.
    replace (length c0 + 1 - 1) with (length c0) in * by lia.
    destruct (Nat.lt_trichotomy k ax) as [L|[E|G]].
    + rewrite !nth_insert_nth_lt' by (rewrite ?seq_length; lia). rewrite seq_nth by lia. cbn [Nat.add].
      apply app_nth1. lia.
    + subst k. rewrite !nth_insert_nth by (rewrite ?seq_length; lia). rewrite app_nth2, Nat.sub_diag by lia. reflexivity.
    + rewrite !nth_insert_nth_gt by (rewrite ?seq_length; lia). rewrite seq_nth by lia. cbn [Nat.add].
      apply app_nth1. lia.
Qed.

(* ---------- a flat array: transposing is the identity, splitting evenly cuts consecutive chunks ---------- *)
Section FlatSplit.
Context {T : Type} (d : T).

Lemma transpose_1d (f : arr T) n : wf f -> shape f = [n] -> transpose d f (Some [0%Z]) = Ok f.
Proof.
  intros W S. assert (ndim f = 1) as N1 by (unfold ndim; now rewrite S).
  assert (is_perm [0] (ndim f)) as P by (rewrite N1; apply is_permb_spec; reflexivity).
  change [0%Z] with (map Z.of_nat [0]). rewrite (transpose_of_perm d f [0] P).
  destruct (transpose_perm_ok d f [0] W ltac:(lia) P) as (r & E & Wr & Sr & G & _). rewrite E. f_equal.
  apply (array_ext d); auto.
  - rewrite Sr, S. reflexivity.
  - intros c H. rewrite Sr, S in H. cbn [pick map nth] in H.
    destruct c as [|i [|? ?]]; cbn in H; try tauto. rewrite <- (G [i]); [reflexivity|]. rewrite S. cbn. tauto.
Qed.

Lemma rollaxis_1d (f : arr T) n : wf f -> shape f = [n] -> rollaxis d f 0%Z None = Ok f.
Proof.
  intros W S. unfold rollaxis. assert (ndim f = 1) as N1 by (unfold ndim; now rewrite S). rewrite N1.
  cbn [normalize_axis Z.ltb Z.compare axis_in_bounds guard bind Z.of_nat Pos.of_succ_nat Z.to_nat rollaxis_order seq remove_nth insert_nth map].
  now apply (transpose_1d f n).
Qed.

Definition chunk (es : list T) (L j : nat) : arr T := mk (firstn L (skipn (j * L) es)) [L].

Lemma split_pieces_1d (f : arr T) L k start :
  ndim f = 1 -> start * L + k * L <= length (elems f) ->
  split_pieces d f f 0 1 (start * L) (repeat L k) = Ok (map (fun j => chunk (elems f) L (start + j)) (seq 0 k)).
Proof.
  intros N1. revert start; induction k as [|k IH]; intros start H; cbn [repeat split_pieces seq map]; [reflexivity|].
  unfold split_piece at 1. rewrite !Nat.mul_1_r. rewrite flat_arr_ok. cbn [bind]. rewrite N1. cbn [Nat.eqb].
  replace (start * L + L) with (S start * L) by lia. rewrite IH by lia.
  f_equal. cbn [map]. f_equal.
  - unfold chunk. rewrite Nat.add_0_r. f_equal. f_equal. rewrite firstn_length, skipn_length. lia.
  - rewrite <- seq_shift, map_map. apply map_ext. intros j. f_equal. lia.
Qed.

(* splitting a non-empty flat array of p * L elements into p parts: the p consecutive chunks of length L *)
Theorem split_even_1d (f : arr T) p L axis :
  wf f -> shape f = [p * L] -> 0 < p -> 0 < L -> (axis = None \/ axis = Some 0) ->
  split_even d f p axis = Ok (map (chunk (elems f) L) (seq 0 p)).
Proof.
  intros W S Hp HL Hax. assert (ndim f = 1) as N1 by (unfold ndim; now rewrite S).
  assert (len f = p * L) as Len by (unfold len; rewrite W, S; cbn; lia).
  assert (axis_opt_in_bounds f axis = Ok tt) as AB by (destruct Hax as [-> | ->]; cbn; [|rewrite N1]; reflexivity).
  assert ((match axis with Some x => x | None => 0 end) = 0) as A0 by (destruct Hax as [-> | ->]; reflexivity).
  unfold split_even. rewrite AB. cbn [bind]. destruct (Nat.eqb_spec p 0); [lia|].
  assert ((p * L) mod p = 0) as M0 by (rewrite Nat.mul_comm; apply Nat.mod_mul; lia).
  assert ((p * L) / p = L) as D0 by (rewrite Nat.mul_comm; apply Nat.div_mul; lia).
  unfold is_empty. rewrite Len. destruct (Nat.eqb_spec (p * L) 0); [nia|]. rewrite A0, S. cbn [nth_error].
  rewrite M0. cbn [Nat.eqb].
  unfold array_split. destruct (Nat.eqb_spec p 0); [lia|]. rewrite AB. cbn [bind]. unfold is_empty. rewrite Len.
  destruct (Nat.eqb_spec (p * L) 0); [nia|]. rewrite A0, S. cbn [nth_error Z.of_nat].
  rewrite (rollaxis_1d f (p * L)) by auto. cbn [bind]. rewrite ?Len, Nat.div_same by nia.
  unfold section_sizes. rewrite M0, D0. cbn [repeat app]. rewrite Nat.sub_0_r.
  pose proof (split_pieces_1d f L p 0 N1) as Q. cbn [Nat.mul Nat.add] in Q. rewrite Q by (unfold len in Len; lia).
  reflexivity.
Qed.

End FlatSplit.

(* ---------- re-assembly: indexing into the concatenation of equally long pieces ---------- *)
Lemma nth_flat_map_uniform {A B} (g : A -> list B) (l : list A) m j k da db :
  (forall x, In x l -> length (g x) = m) -> j < length l -> k < m ->
  nth (j * m + k) (flat_map g l) db = nth k (g (nth j l da)) db.
Proof.
  revert j; induction l as [|x t IH]; intros j H Hj Hk; cbn in Hj; [lia|]. cbn [flat_map].
  destruct j as [|j].
  - cbn [Nat.mul Nat.add nth]. apply app_nth1. rewrite H by now left. exact Hk.
  - rewrite app_nth2 by (rewrite H by (now left); nia). rewrite H by now left.
    replace (S j * m + k - m) with (j * m + k) by lia. cbn [nth]. apply IH; [intros; apply H; now right | lia | auto].
Qed.

Lemma length_flat_map_uniform {A B} (g : A -> list B) (l : list A) m :
  (forall x, In x l -> length (g x) = m) -> length (flat_map g l) = length l * m.
Proof.
  induction l as [|x t IH]; intros H; cbn [flat_map length]; auto.
  rewrite app_length, (H x) by now left. rewrite IH; [lia|]. intros; apply H; now right.
Qed.

(* ---------- the lane theorem ---------- *)
Lemma mapM_ok {A B} (f : A -> res B) (h : A -> B) l : (forall x, In x l -> f x = Ok (h x)) -> mapM f l = Ok (map h l).
Proof.
  induction l as [|x t IH]; intros H; cbn [mapM map]; [reflexivity|].
  rewrite (H x) by now left. cbn [bind]. rewrite IH by (intros; apply H; now right). reflexivity.
Qed.

Lemma norm_nat_of_nat n k : norm_nat n (Z.of_nat k) = k.
Proof. unfold norm_nat. destruct (Z.ltb_spec (Z.of_nat k) 0); lia. Qed.

Lemma axis_ok_of_nat n k : k < n -> axis_ok n (Z.of_nat k).
Proof. unfold axis_ok. lia. Qed.

Section AlongSpec.
Context {T U : Type} (dt : T) (du : U).

(* the 1-D lane of `a` along axis `ax` at the position `rest` of the remaining axes *)
Definition lane (a : arr T) (ax : nat) (rest : list nat) : arr T :=
  mk (map (fun k => get dt a (insert_nth rest ax k)) (seq 0 (nth ax (shape a) 0))) [nth ax (shape a) 0].

Lemma move_to_last (a : arr T) ax :
  wf a -> ax < ndim a -> (Z.of_nat (ndim a) < two64)%Z ->
  exists mv, moveaxis dt a [Z.of_nat ax] [Z.of_nat (ndim a - 1)] = Ok mv /\ wf mv /\
     shape mv = remove_nth (shape a) ax ++ [nth ax (shape a) 0] /\
     forall rest k, in_range (remove_nth (shape a) ax) rest -> k < nth ax (shape a) 0 ->
        get dt mv (rest ++ [k]) = get dt a (insert_nth rest ax k).
Proof.
  intros W H B. rewrite moveaxis_single_ok by (auto; apply axis_ok_of_nat; lia).
  rewrite !norm_nat_of_nat.
  destruct (transpose_perm_ok dt a (rollaxis_order (ndim a) ax (ndim a - 1)) W ltac:(lia)
              (rollaxis_order_is_perm _ _ _ H)) as (r & E & Wr & Sr & G & _).
  exists r. split; [exact E|]. split; [exact Wr|]. unfold ndim in *. split.
  - rewrite Sr. apply pick_to_last. exact H.
  - intros rest k Hr Hk.
    assert (length rest = length (shape a) - 1) as Lr by (apply in_range_length in Hr; rewrite Hr; apply remove_nth_length; exact H).
    assert (in_range (shape a) (insert_nth rest ax k)) as IR.
    { rewrite <- (insert_remove_nth (shape a) ax 0 H) at 1. apply in_range_insert; auto.
      rewrite remove_nth_length by auto. lia. }
    rewrite <- (G _ IR). f_equal.
    assert (length (insert_nth rest ax k) = length (shape a)) as Li by (rewrite insert_nth_length; lia).
    rewrite <- Li. rewrite pick_to_last by lia.
    rewrite remove_insert_nth' by lia. rewrite nth_insert_nth_eq by lia. reflexivity.
Qed.

Lemma move_from_last (b : arr U) ax :
  wf b -> ax < ndim b -> (Z.of_nat (ndim b) < two64)%Z ->
  exists r, (if ax =? 0 then rollaxis du b (Z.of_nat (ndim b - 1)) None
             else moveaxis du b [Z.of_nat (ndim b - 1)] [Z.of_nat ax]) = Ok r /\ wf r /\
     shape r = insert_nth (removelast (shape b)) ax (last (shape b) 0) /\
     forall c', in_range (shape b) c' -> get du r (insert_nth (removelast c') ax (last c' 0)) = get du b c'.
Proof.
  intros W H B.
  assert ((if ax =? 0 then rollaxis du b (Z.of_nat (ndim b - 1)) None
           else moveaxis du b [Z.of_nat (ndim b - 1)] [Z.of_nat ax]) =
          transpose_perm du b (rollaxis_order (ndim b) (ndim b - 1) ax)) as ->.
  { destruct (Nat.eqb_spec ax 0) as [->|N].
    - rewrite rollaxis_default.
      destruct (rollaxis_ok du b (Z.of_nat (ndim b - 1)) 0%Z B ltac:(apply axis_ok_of_nat; lia) ltac:(unfold axis_ok; lia)) as [E _].
      rewrite E, norm_nat_of_nat. reflexivity.
    - rewrite moveaxis_single_ok by (auto; apply axis_ok_of_nat; lia). now rewrite !norm_nat_of_nat. }
  destruct (transpose_perm_ok du b (rollaxis_order (ndim b) (ndim b - 1) ax) W ltac:(lia)
              (rollaxis_order_is_perm (ndim b) (ndim b - 1) ax ltac:(lia))) as (r & E & Wr & Sr & G & _).
  exists r. split; [exact E|]. split; [exact Wr|]. unfold ndim in *. split.
  - rewrite Sr. apply pick_from_last; lia.
  - intros c' Hc. rewrite <- (G _ Hc). f_equal. pose proof (in_range_length _ _ Hc) as Lc. rewrite <- Lc.
    symmetry. apply pick_from_last; lia.
Qed.

End AlongSpec.

Lemma nth_map_seq {A} (f : nat -> A) n k d : k < n -> nth k (map f (seq 0 n)) d = f k.
Proof.
  intros H. rewrite (nth_indep _ d (f 0)) by (rewrite map_length, seq_length; exact H).
  rewrite map_nth, seq_nth by exact H. reflexivity.
Qed.

Lemma in_range_insert_nth_lt rs c ax m : ax <= length rs -> in_range (insert_nth rs ax m) c -> nth ax c 0 < m.
Proof.
  revert c ax; induction rs as [|h t IH]; intros [|i c] [|ax] Q Hc; cbn in *; try lia; try tauto.
  destruct Hc as [_ Hc]. apply (IH c ax); [lia | exact Hc].
Qed.

Section AlongMain.
Context {T U : Type} (dt : T) (du : U).

(* the j-th chunk of the moved data is the lane at the j-th position (row-major) of the remaining axes *)
Lemma chunk_is_lane (a mv : arr T) ax j :
  wf mv -> shape mv = remove_nth (shape a) ax ++ [nth ax (shape a) 0] ->
  (forall rest k, in_range (remove_nth (shape a) ax) rest -> k < nth ax (shape a) 0 ->
        get dt mv (rest ++ [k]) = get dt a (insert_nth rest ax k)) ->
  j < prod (remove_nth (shape a) ax) ->
  chunk (elems mv) (nth ax (shape a) 0) j = lane dt a ax (unravel (remove_nth (shape a) ax) j).
Proof.
  set (L := nth ax (shape a) 0). set (rs := remove_nth (shape a) ax).
  intros W S G Hj. unfold chunk, lane. fold L. f_equal.
  assert (length (elems mv) = prod rs * L) as Len by (rewrite W, S, prod_app; cbn; lia).
  apply (nth_ext _ _ dt dt).
  - rewrite firstn_length, skipn_length, map_length, seq_length. nia.
  - intros k Hk. rewrite firstn_length, skipn_length in Hk. assert (k < L) as HkL by lia.
    rewrite nth_firstn_lt by exact HkL. rewrite nth_skipn_add. rewrite nth_map_seq by exact HkL.
    rewrite <- G by (auto; apply unravel_in_range; exact Hj).
    unfold get. rewrite S. rewrite flat_snoc by (apply in_range_length, unravel_in_range; exact Hj).
    rewrite flat_unravel by exact Hj. reflexivity.
Qed.

(* THE LANE THEOREM.  For a well-formed array with positive extents and an axis in range, if the lane function
   succeeds on every 1-D lane of length L with a result of m elements, then apply_along_axis succeeds, the result has
   the input's shape with extent m at `ax`, and the element at coordinate c is element c[ax] of the result computed from
   exactly the lane of the input at the remaining coordinates of c. *)
Theorem apply_along_axis_spec (a : arr T) ax (f : arr T -> res (arr U)) (fr : arr T -> arr U) m :
  wf a -> pos_shape (shape a) -> ax < ndim a -> (Z.of_nat (ndim a) < two64)%Z ->
  (forall ln, wf ln -> shape ln = [nth ax (shape a) 0] -> f ln = Ok (fr ln) /\ len (fr ln) = m) ->
  exists R, apply_along_axis dt du a ax f = Ok R /\ wf R /\ shape R = upd (shape a) ax m /\
    forall c, in_range (shape R) c ->
      get du R c = nth (nth ax c 0) (elems (fr (lane dt a ax (remove_nth c ax)))) du.
Proof.
  intros W P H B F. set (L := nth ax (shape a) 0) in *. set (rs := remove_nth (shape a) ax).
  assert (0 < L) as HL by (apply pos_shape_nth; auto).
  assert (0 < prod rs) as Hp by (apply pos_shape_prod, pos_shape_remove, P).
  assert (length rs = ndim a - 1) as Lrs by (apply remove_nth_length; exact H).
  unfold apply_along_axis. destruct (Nat.ltb_spec ax (ndim a)); [|lia]. cbn [guard bind].
  destruct (move_to_last dt a ax W H B) as (mv & Em & Wm & Sm & Gm). rewrite Em. cbn [bind]. fold L in Sm, Gm. fold rs in Sm, Gm.
  assert (len mv = prod rs * L) as Lm by (unfold len; rewrite Wm, Sm, prod_app; cbn; lia).
  unfold ravel. assert (new (elems mv) [len mv] = Ok (mk (elems mv) [len mv])) as ->
    by (apply new_iff; split; [cbn; unfold len; lia | reflexivity]). cbn [bind]. fold rs.
  rewrite (split_even_1d dt (mk (elems mv) [len mv]) (prod rs) L None); cbn [shape elems];
    [| unfold wf; cbn; unfold len; lia | now rewrite Lm | exact Hp | exact HL | now left]. cbn [bind].
  (* every chunk is a valid lane *)
  assert (forall x, In x (map (chunk (elems mv) L) (seq 0 (prod rs))) -> f x = Ok (fr x)) as Fok.
  { intros x Hx. apply in_map_iff in Hx as (j & <- & Hj). apply in_seq in Hj.
    apply F; [|reflexivity]. unfold wf, chunk. cbn. rewrite firstn_length, skipn_length. unfold len in Lm. nia. }
  rewrite (mapM_ok f fr _ Fok). cbn [bind]. rewrite map_map.
  destruct (prod rs) as [|p'] eqn:Ep; [lia|]. rewrite <- Ep in *. clear p' Ep.
  remember (map (fun j => fr (chunk (elems mv) L j)) (seq 0 (prod rs))) as results eqn:Er.
  assert (length results = prod rs) as Lres by (rewrite Er, map_length, seq_length; reflexivity).
  assert (forall x, In x results -> length (elems x) = m) as Um.
  { intros x Hx. rewrite Er in Hx. apply in_map_iff in Hx as (j & <- & Hj). apply in_seq in Hj.
    apply F; [|reflexivity]. unfold wf, chunk. cbn. rewrite firstn_length, skipn_length. unfold len in Lm. nia. }
  destruct results as [|first rest_results] eqn:Eres; [cbn in Lres; lia|]. rewrite <- Eres in *.
  assert (len first = m) as Lf by (apply Um; rewrite Eres; now left).
  assert (forallb (fun r : arr U => len r =? len first) results = true) as ->
    by (apply forallb_forall; intros x Hx; unfold len at 1; rewrite (Um x Hx), Lf; apply Nat.eqb_refl).
  cbn [negb]. rewrite flat_arr_ok. cbn [bind]. rewrite Lf.
  assert (upd (shape mv) (ndim a - 1) m = rs ++ [m]) as ->.
  { rewrite Sm. rewrite <- Lrs. clear. induction rs as [|h t IH]; cbn; [reflexivity | now rewrite IH]. }
  pose proof (length_flat_map_uniform (@elems U) results m Um) as Lfm.
  unfold reshape. cbn [elems].
  assert (new (flat_map (@elems U) results) (rs ++ [m]) = Ok (mk (flat_map (@elems U) results) (rs ++ [m]))) as ->
    by (apply new_iff; split; [rewrite Lfm, Lres, prod_app; cbn; lia | reflexivity]). cbn [bind].
  set (b := mk (flat_map (@elems U) results) (rs ++ [m])).
  assert (wf b) as Wb by (unfold wf, b; cbn [elems shape]; rewrite Lfm, Lres, prod_app; cbn; lia).
  assert (ndim b = ndim a) as Nb by (unfold b; unfold ndim in *; cbn [shape]; rewrite app_length; cbn [length]; lia).
  rewrite <- Nb. destruct (move_from_last du b ax Wb ltac:(lia) ltac:(lia)) as (R & ER & WR & SR & GR).
  exists R. split; [exact ER|]. split; [exact WR|].
  assert (shape R = upd (shape a) ax m) as ShR.
  { rewrite SR. unfold b. cbn [shape]. rewrite removelast_last, last_last. symmetry. apply upd_as_insert_remove. exact H. }
  split; [exact ShR|].
  intros c Hc. rewrite ShR in Hc. rewrite upd_as_insert_remove in Hc by exact H. fold rs in Hc.
  pose proof (in_range_length _ _ Hc) as Lc. rewrite insert_nth_length in Lc.
  assert (ax < length c) as Hax by (unfold ndim in *; lia).
  assert (in_range rs (remove_nth c ax)) as Hrest.
  { apply (in_range_remove _ _ ax) in Hc. rewrite remove_insert_nth' in Hc by (unfold ndim in *; lia). exact Hc. }
  assert (nth ax c 0 < m) as Hk by (apply (in_range_insert_nth_lt rs c ax m); [lia | exact Hc]).
  specialize (GR (remove_nth c ax ++ [nth ax c 0])). unfold b in GR at 1. cbn [shape] in GR.
  rewrite removelast_last, last_last in GR. rewrite insert_remove_nth in GR by exact Hax.
  rewrite GR by (apply in_range_snoc; assumption).
  unfold get, b. cbn [shape elems]. rewrite flat_snoc by (apply in_range_length; exact Hrest).
  rewrite (nth_flat_map_uniform (@elems U) results m _ _ first du Um)
    by (rewrite ?Lres; auto; apply flat_lt; exact Hrest).
  f_equal. f_equal. rewrite Er.
  rewrite (nth_indep _ first (fr (chunk (elems mv) L 0))) by (rewrite map_length, seq_length; apply flat_lt; exact Hrest).
  rewrite (map_nth (fun j => fr (chunk (elems mv) L j))), seq_nth by (apply flat_lt; exact Hrest). cbn [Nat.add].
  f_equal. unfold L, rs. rewrite (chunk_is_lane a mv ax) by (auto; apply flat_lt; exact Hrest).
  f_equal. apply unravel_flat. exact Hrest.
Qed.

End AlongMain.

(* ---------- corollaries: scans, reductions, counting/searching along an axis ---------- *)
Lemma prod_insert_nth l ax d : prod (insert_nth l ax d) = d * prod l.
Proof. revert ax; induction l as [|h t IH]; intros [|ax]; cbn; try lia. rewrite IH. lia. Qed.

Lemma flat_insert_unit rs rest ax : ax <= length rs -> length rest = length rs ->
  flat (insert_nth rs ax 1) (insert_nth rest ax 0) = flat rs rest.
Proof.
  revert rest ax; induction rs as [|h t IH]; intros [|i c] [|ax] Q L; cbn in *; try lia.
  rewrite prod_insert_nth, IH by lia. lia.
Qed.

Lemma upd_same {A} (l : list A) ax d : ax < length l -> upd l ax (nth ax l d) = l.
Proof. revert ax; induction l as [|h t IH]; intros [|ax] H; cbn in *; try lia; auto. f_equal. apply IH. lia. Qed.

Lemma remove_nth_upd {A} (l : list A) ax x : remove_nth (upd l ax x) ax = remove_nth l ax.
Proof. revert ax; induction l as [|h t IH]; intros [|ax]; cbn; auto. f_equal. apply IH. Qed.

Section AlongCorollaries.
Context {T : Type} (dt : T).

(* SCANS: the result has the input's shape and, along every lane, is the 1-D scan of that lane *)
Theorem scan_axis_spec (g : list T -> list T) (a : arr T) z :
  wf a -> pos_shape (shape a) -> (Z.of_nat (ndim a) < two64)%Z -> axis_ok (ndim a) z ->
  (forall l, length (g l) = length l) ->
  let ax := norm_nat (ndim a) z in
  exists R, scan dt g a (Some z) = Ok R /\ wf R /\ shape R = shape a /\
    forall c, in_range (shape a) c ->
      get dt R c = nth (nth ax c 0) (g (elems (lane dt a ax (remove_nth c ax)))) dt.
Proof.
  intros W P B Hz Hg ax. destruct (normalize_axis_ok _ _ B Hz) as [En Lax]. fold ax in En, Lax.
  unfold scan. rewrite En. destruct (Z.ltb_spec (Z.of_nat ax) (Z.of_nat (ndim a))); [|lia]. cbn [guard bind]. rewrite Nat2Z.id.
  destruct (apply_along_axis_spec dt dt a ax (scan1 g) (fun ln => mk (g (elems ln)) [len ln]) (nth ax (shape a) 0) W P Lax B)
    as (R & E & WR & SR & GR).
  { intros ln Wl Sl. split.
    - unfold scan1. rewrite ravel_ok. cbn [bind elems shape]. rewrite flat_arr_ok. cbn [bind].
      apply reshape_iff. cbn. unfold len. rewrite Hg. lia.
    - unfold len. cbn [elems]. rewrite Hg, Wl, Sl. cbn. lia. }
  exists R. split; [exact E|]. split; [exact WR|].
  assert (shape R = shape a) as S' by (rewrite SR; apply upd_same; exact Lax).
  split; [exact S'|]. intros c Hc. rewrite <- S' in Hc. rewrite (GR c Hc). reflexivity.
Qed.

(* REDUCTIONS: rank > 1 removes the axis; the element at `rest` is the 1-D reduction of the lane at `rest` *)
Theorem reduce_axis_spec (g1 : list T -> res T) (h : list T -> T) (a : arr T) z :
  wf a -> pos_shape (shape a) -> (Z.of_nat (ndim a) < two64)%Z -> axis_ok (ndim a) z ->
  let ax := norm_nat (ndim a) z in
  (forall l, length l = nth ax (shape a) 0 -> g1 l = Ok (h l)) ->
  exists R, reduce dt g1 a (Some z) = Ok R /\ wf R /\
    (1 < ndim a -> shape R = remove_nth (shape a) ax /\
        forall rest, in_range (shape R) rest -> get dt R rest = h (elems (lane dt a ax rest))) /\
    (ndim a = 1 -> R = mk [h (elems a)] [1]).
Proof.
  intros W P B Hz ax Hg. destruct (normalize_axis_ok _ _ B Hz) as [En Lax]. fold ax in En, Lax.
  unfold reduce, reduce_axis. rewrite En. destruct (Z.ltb_spec (Z.of_nat ax) (Z.of_nat (ndim a))); [|lia]. cbn [guard bind]. rewrite Nat2Z.id.
  destruct (apply_along_axis_spec dt dt a ax (fun ln => let* v := g1 (elems ln) in single v)
              (fun ln => mk [h (elems ln)] [1]) 1 W P Lax B) as (R & E & WR & SR & GR).
  { intros ln Wl Sl. split; [|reflexivity]. rewrite Hg by (rewrite Wl, Sl; cbn; lia). reflexivity. }
  rewrite E. cbn [bind].
  assert (ndim R = ndim a) as NR by (unfold ndim; rewrite SR; apply upd_length).
  rewrite NR. destruct (Nat.ltb_spec 1 (ndim a)) as [G1|L1].
  - assert (length (elems R) = prod (remove_nth (shape R) ax)) as LenR.
    { rewrite WR, SR, remove_nth_upd. rewrite (prod_remove_nth (upd (shape a) ax 1) ax) by (rewrite upd_length; exact Lax).
      rewrite nth_upd_eq by exact Lax. rewrite remove_nth_upd. lia. }
    eexists. split; [apply reshape_iff; unfold len; symmetry; exact LenR|]. split; [unfold wf; cbn [elems shape]; exact LenR|].
    split; [|intros; lia]. intros _. cbn [shape]. rewrite SR, remove_nth_upd. split; [reflexivity|].
    intros rest Hr. pose proof (in_range_length _ _ Hr) as Lr.
    assert (length (remove_nth (shape a) ax) = ndim a - 1) as Lrs by (apply remove_nth_length; exact Lax).
    specialize (GR (insert_nth rest ax 0)).
    rewrite SR, upd_as_insert_remove in GR by exact Lax.
    rewrite remove_insert_nth', nth_insert_nth_eq in GR by lia. cbn [elems nth] in GR.
    rewrite <- GR by (apply in_range_insert; [lia | exact Hr | lia]).
    unfold get. cbn [shape elems]. rewrite SR, upd_as_insert_remove by exact Lax.
    rewrite flat_insert_unit by lia. reflexivity.
  - eexists. split; [apply reshape_iff; unfold len; symmetry; exact WR|]. split; [exact WR|]. split; [intros; lia|].
    intros N1. destruct R as [eR sR]. cbn [shape elems] in *.
    assert (ax = 0) as A0 by lia. destruct (shape a) as [|d0 [|? ?]] eqn:Sa; unfold ndim in N1; rewrite ?Sa in N1; cbn in N1; try lia.
    rewrite A0 in *. cbn [upd] in SR. subst sR.
    assert (length eR = 1) as L1' by (unfold wf in WR; cbn in WR; lia).
    destruct eR as [|e0 [|? ?]]; cbn in L1'; try lia. f_equal. f_equal.
    assert (in_range [1] [0]) as IR by (cbn; lia).
    pose proof (GR [0] IR) as G0. unfold get in G0. cbn [shape elems flat prod remove_nth nth Nat.mul Nat.add] in G0.
    rewrite G0. f_equal. unfold lane. rewrite Sa. cbn [nth elems insert_nth].
    etransitivity; [|apply (map_nth_seq (elems a) dt)]. unfold wf in W. rewrite W, Sa. cbn [prod]. rewrite Nat.mul_1_r.
    apply map_ext. intros k. unfold get. rewrite Sa. cbn [flat prod]. f_equal. lia.
Qed.

End AlongCorollaries.

Section IndexReduceSpec.
Context {T U : Type} (dt : T) (du : U).

(* COUNTING / SEARCHING along an axis (count_nonzero, argmax, argmin): with keepdims the axis stays with extent 1,
   without it the axis is removed; the entry for the remaining coordinates `rest` is the 1-D result on that lane *)
Theorem index_reduce_axis_spec (g1 : list T -> res U) (h : list T -> U) (a : arr T) z keepdims :
  wf a -> pos_shape (shape a) -> (Z.of_nat (ndim a) < two64)%Z -> axis_ok (ndim a) z ->
  let ax := norm_nat (ndim a) z in
  (forall l, length l = nth ax (shape a) 0 -> g1 l = Ok (h l)) ->
  exists R, index_reduce dt du g1 a (Some z) keepdims = Ok R /\ wf R /\
    shape R = (if keepdims then upd (shape a) ax 1 else remove_nth (shape a) ax) /\
    forall rest, in_range (remove_nth (shape a) ax) rest ->
      get du R (if keepdims then insert_nth rest ax 0 else rest) = h (elems (lane dt a ax rest)).
Proof.
  intros W P B Hz ax Hg. destruct (normalize_axis_ok _ _ B Hz) as [En Lax]. fold ax in En, Lax.
  unfold index_reduce. rewrite En. destruct (Z.ltb_spec (Z.of_nat ax) (Z.of_nat (ndim a))); [|lia]. cbn [guard bind]. rewrite Nat2Z.id.
  destruct (apply_along_axis_spec dt du a ax (fun ln => let* v := g1 (elems ln) in single v)
              (fun ln => mk [h (elems ln)] [1]) 1 W P Lax B) as (R & E & WR & SR & GR).
  { intros ln Wl Sl. split; [|reflexivity]. rewrite Hg by (rewrite Wl, Sl; cbn; lia). reflexivity. }
  rewrite E. cbn [bind].
  assert (length (remove_nth (shape a) ax) = ndim a - 1) as Lrs by (apply remove_nth_length; exact Lax).
  assert (forall rest, in_range (remove_nth (shape a) ax) rest ->
            get du R (insert_nth rest ax 0) = h (elems (lane dt a ax rest))) as GK.
  { intros rest Hr. pose proof (in_range_length _ _ Hr) as Lr. specialize (GR (insert_nth rest ax 0)).
    rewrite SR, upd_as_insert_remove in GR by exact Lax.
    rewrite remove_insert_nth', nth_insert_nth_eq in GR by lia. cbn [elems nth] in GR.
    apply GR. apply in_range_insert; [lia | exact Hr | lia]. }
  destruct keepdims.
  - exists R. split; [reflexivity|]. split; [exact WR|]. split; [exact SR|]. exact GK.
  - assert (length (elems R) = prod (remove_nth (shape a) ax)) as LenR.
    { rewrite WR, SR. rewrite (prod_remove_nth (upd (shape a) ax 1) ax) by (rewrite upd_length; exact Lax).
      rewrite nth_upd_eq by exact Lax. rewrite remove_nth_upd. lia. }
    eexists. split; [apply reshape_iff; unfold len; symmetry; exact LenR|].
    split; [unfold wf; cbn [elems shape]; exact LenR|]. split; [reflexivity|].
    intros rest Hr. pose proof (in_range_length _ _ Hr) as Lr. rewrite <- (GK rest Hr).
    unfold get. cbn [shape elems]. rewrite SR, upd_as_insert_remove by exact Lax.
    rewrite flat_insert_unit by lia. reflexivity.
Qed.

End IndexReduceSpec.

(* the common instance: the lane function builds a flat array from a list function of the lane's elements *)
Section AlongFlat.
Context {T U : Type} (dt : T) (du : U).

Theorem along_flat_spec (a : arr T) ax (f : arr T -> res (arr U)) (g : list T -> list U) m :
  wf a -> pos_shape (shape a) -> ax < ndim a -> (Z.of_nat (ndim a) < two64)%Z ->
  (forall ln, wf ln -> shape ln = [nth ax (shape a) 0] -> f ln = flat_arr (g (elems ln))) ->
  (forall l, length l = nth ax (shape a) 0 -> length (g l) = m) ->
  exists R, apply_along_axis dt du a ax f = Ok R /\ wf R /\ shape R = upd (shape a) ax m /\
    forall c, in_range (shape R) c ->
      get du R c = nth (nth ax c 0) (g (elems (lane dt a ax (remove_nth c ax)))) du.
Proof.
  intros W P H B F G.
  destruct (apply_along_axis_spec dt du a ax f (fun ln => mk (g (elems ln)) [length (g (elems ln))]) m W P H B)
    as (R & E & WR & SR & GR).
  - intros ln Wl Sl. split; [rewrite (F ln Wl Sl); apply flat_arr_ok|].
    unfold len. cbn [elems]. apply G. rewrite Wl, Sl. cbn. lia.
  - exists R. repeat split; auto.
Qed.

End AlongFlat.

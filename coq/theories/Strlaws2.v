(* further per-string laws (C17): zfill and translate *)
From ArrRs Require Import Index Lists_proofs Axis Str Str_proofs.

Lemma zfill_other c t width : c <> 45%Z -> s_zfill (c :: t) width = repeat 48%Z (width - length (c :: t)) ++ c :: t.
Proof.
  intros Ne. unfold s_zfill. destruct c as [|p|p]; try reflexivity.
  do 6 (destruct p as [p|p|]; try reflexivity). contradiction.
Qed.

(* zfill pads with zeros on the left (after a leading minus sign) up to the width and never shortens *)
Theorem zfill_spec (a : str) width :
  length (s_zfill a width) = Nat.max (length a) width /\
  exists sign zeros body, a = sign ++ body /\ s_zfill a width = sign ++ zeros ++ body /\
    (sign = [] \/ sign = [45%Z]) /\ zeros = repeat 48%Z (length zeros) /\ (width <= length a -> zeros = []).
Proof.
  destruct a as [|c t].
  - unfold s_zfill. cbn [length]. rewrite app_nil_r, repeat_length, Nat.sub_0_r. split; [lia|].
    exists [], (repeat 48%Z width), []. rewrite repeat_length, app_nil_r. repeat split; auto.
    + cbn [app]. now rewrite app_nil_r.
    + intros H. replace width with 0 by (cbn in H; lia). reflexivity.
  - destruct (Z.eq_dec c 45) as [->|Ne].
    + unfold s_zfill. cbn [length]. rewrite app_length, repeat_length. split; [lia|].
      exists [45%Z], (repeat 48%Z (width - 1 - length t)), t. rewrite repeat_length. repeat split; auto.
      intros H. replace (width - 1 - length t) with 0 by (cbn [length] in H; lia). reflexivity.
    + rewrite (zfill_other c t width Ne).
      rewrite app_length, repeat_length. split; [lia|].
      exists [], (repeat 48%Z (width - length (c :: t))), (c :: t). rewrite repeat_length. repeat split; auto.
      intros H. replace (width - length (c :: t)) with 0 by lia. reflexivity.
Qed.

(* translate maps every character through the table and keeps the length *)
Theorem translate_spec (a : str) table :
  length (s_translate a table) = length a /\
  forall k, k < length a -> nth k (s_translate a table) 0%Z = translate_c table (nth k a 0%Z).
Proof.
  unfold s_translate. split; [apply map_length|]. intros k Hk. now apply nth_map_lt.
Qed.

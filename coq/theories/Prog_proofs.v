From ArrRs Require Import Index Index_proofs Lists_proofs Axis Axis_proofs Reshape_proofs Prog.

Section ProgProofs.
Context {T : Type} (dflt : T).
Implicit Types a r : arr T.

Lemma transpose_perm_wf a p r : transpose_perm dflt a p = Ok r -> wf r.
Proof. unfold transpose_perm. destruct (_ =? _); [discriminate|]. apply new_wf. Qed.

Lemma transpose_wf a axes r : transpose dflt a axes = Ok r -> wf r.
Proof.
  unfold transpose. destruct axes as [l|]; [|apply transpose_perm_wf].
  intros H. inv_bind H. inv_bind H. inv_bind H. now apply transpose_perm_wf in H.
Qed.

Lemma moveaxis_wf a s t r : moveaxis dflt a s t = Ok r -> wf r.
Proof. unfold moveaxis. intros H. do 6 inv_bind H. now apply transpose_wf in H. Qed.

Lemma rollaxis_wf a ax st r : rollaxis dflt a ax st = Ok r -> wf r.
Proof. unfold rollaxis. intros H. do 2 inv_bind H. now apply transpose_wf in H. Qed.

Lemma swapaxes_wf a x y r : swapaxes dflt a x y = Ok r -> wf r.
Proof. unfold swapaxes. intros H. do 2 inv_bind H. now apply transpose_wf in H. Qed.

Lemma resize_wf a sh r : resize dflt a sh = Ok r -> wf r.
Proof. unfold resize. intros H. inv_bind H. now apply reshape_ok in H as (_ & _ & W). Qed.

Lemma cycle_take_wf a n r : cycle_take dflt a n = Ok r -> wf r.
Proof. unfold cycle_take. apply new_wf. Qed.

Lemma operand_wf env i a : Forall wf env -> operand env i = Ok a -> wf a.
Proof.
  unfold operand. intros F H. destruct (nth_error env i) eqn:E; [|discriminate]. injection H as <-.
  rewrite Forall_forall in F. apply F. eapply nth_error_In, E.
Qed.

Ltac one H := let x := fresh "x" in let E := fresh "E" in
  apply bind_ok in H as (x & E & H); injection H as <-; constructor; [|constructor].

(* every operation of the program language returns only well-formed arrays *)
Theorem run_call_wf env c rs : Forall wf env -> run_call dflt env c = Ok rs -> Forall wf rs.
Proof.
  intros F H. destruct c; cbn [run_call] in H; one H.
  - now apply new_wf in E.
  - now apply create_ok in E as [_ W].
  - now apply new_wf in E.
  - now apply new_wf in E.
  - now apply new_wf in E.
  - inv_bind E. now apply reshape_ok in E as (_ & _ & W).
  - inv_bind E. now apply new_wf in E.
  - inv_bind E. apply atleast_ok in E as [_ W]. eauto using operand_wf.
  - inv_bind E. now apply expand_dims_ok in E as [_ W].
  - inv_bind E. now apply squeeze_ok in E as [_ W].
  - inv_bind E. now apply resize_wf in E.
  - inv_bind E. now apply cycle_take_wf in E.
  - inv_bind E. now apply transpose_wf in E.
  - inv_bind E. now apply moveaxis_wf in E.
  - inv_bind E. now apply rollaxis_wf in E.
  - inv_bind E. now apply swapaxes_wf in E.
Qed.

Lemma step_wf env c : Forall wf env -> Forall wf (step dflt env c).
Proof.
  intros F. unfold step. destruct (run_call dflt env c) eqn:E; auto.
  apply Forall_app. split; [auto | eapply run_call_wf; eauto].
Qed.

(* the invariant over all finite programs *)
Theorem run_wf p env : Forall wf env -> Forall wf (run dflt p env).
Proof.
  revert env; induction p as [|c p IH]; intros env F; cbn [run fold_left]; auto.
  apply IH, step_wf, F.
Qed.

(* the reported length, dimension count and emptiness agree with shape and element list *)
Theorem meta_agree a : wf a ->
  len a = length (elems a) /\ len a = prod (shape a) /\ ndim a = length (shape a) /\
  (is_empty a = true <-> len a = 0).
Proof.
  intros W. unfold len, ndim, is_empty, len. repeat split; auto.
  - intros H. now apply Nat.eqb_eq in H.
  - intros H. now apply Nat.eqb_eq.
Qed.

End ProgProofs.

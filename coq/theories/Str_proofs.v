From ArrRs Require Import Index Lists_proofs Axis Broadcast Broadcast_proofs Lift Lift_proofs Str.

Lemma starts_with_split s p : starts_with s p = true -> s = p ++ skipn (length p) s.
Proof.
  revert s; induction p as [|x p IH]; intros s H; cbn in *; [reflexivity|].
  destruct s as [|y s]; [discriminate|]. apply andb_true_iff in H as [E H]. apply Z.eqb_eq in E. subst.
  cbn. f_equal. now apply IH.
Qed.

(* ---------- split then join ---------- *)
Lemma split_f_nonempty fuel s sep cur : split_f fuel s sep cur None <> [].
Proof.
  revert s cur; induction fuel as [|f IH]; intros s cur; cbn [split_f]; [discriminate|].
  destruct s as [|c t]; [discriminate|]. destruct (starts_with (c :: t) sep); [discriminate | apply IH].
Qed.

Lemma join_cons sep x l : l <> [] -> join_with sep (x :: l) = x ++ sep ++ join_with sep l.
Proof. destruct l; [congruence | reflexivity]. Qed.

Lemma split_f_join fuel s sep cur : sep <> [] -> length s < fuel ->
  join_with sep (split_f fuel s sep cur None) = rev cur ++ s.
Proof.
  intros Hs. revert s cur; induction fuel as [|f IH]; intros s cur H; [lia|]. cbn [split_f].
  destruct s as [|c t]; [cbn [join_with]; symmetry; apply app_nil_r|].
  destruct (starts_with (c :: t) sep) eqn:E.
  - rewrite join_cons by apply split_f_nonempty. rewrite IH.
    + cbn [rev app]. f_equal. symmetry. now apply starts_with_split.
    + rewrite skipn_length. cbn [length] in *. destruct sep; [congruence|]. cbn [length]. lia.
  - rewrite IH by (cbn [length] in H; lia). cbn [rev]. now rewrite <- app_assoc.
Qed.

(* splitting loses nothing: the pieces re-joined with the separator give back the original string *)
Theorem split_join s sep : sep <> [] -> join_with sep (split_str s sep None) = s.
Proof.
  intros H. unfold split_str. destruct sep as [|x sep]; [congruence|]. rewrite split_f_join; [reflexivity | discriminate | lia].
Qed.

Lemma join_with_map_rev sep l : join_with (rev sep) (map (@rev Z) l) = rev (join_with sep (rev l)).
Proof.
  induction l as [|x t IH]; [reflexivity|]. cbn [rev map].
  destruct t as [|y t'].
  - reflexivity.
  - change (map (@rev Z) (y :: t')) with (rev y :: map (@rev Z) t') in *.
    rewrite join_cons by discriminate. rewrite IH. clear IH.
    assert (forall l x, l <> [] -> join_with sep (l ++ [x]) = join_with sep l ++ sep ++ x) as K.
    { clear. induction l as [|a l IH]; intros x H; [congruence|]. destruct l as [|b l].
      - reflexivity.
      - change ((a :: b :: l) ++ [x]) with (a :: ((b :: l) ++ [x])). rewrite join_cons by (destruct l; discriminate).
        rewrite IH by discriminate. rewrite (join_cons sep a (b :: l)) by discriminate. now rewrite <- !app_assoc. }
    rewrite K by (cbn; destruct (rev t'); discriminate). now rewrite !rev_app_distr, <- app_assoc.
Qed.

Theorem rsplit_join s sep : sep <> [] -> join_with sep (rsplit_str s sep None) = s.
Proof.
  intros H. unfold rsplit_str.
  rewrite <- (rev_involutive sep) at 1. rewrite join_with_map_rev, rev_involutive.
  rewrite split_join by (destruct sep; [congruence | cbn; destruct (rev sep); discriminate]). apply rev_involutive.
Qed.

(* ---------- partition ---------- *)
Lemma find_some s sub i : find s sub = Some i -> starts_with (skipn i s) sub = true /\ i <= length s.
Proof.
  revert i; induction s as [|c t IH]; intros i H; cbn [find] in H.
  - destruct (starts_with [] sub) eqn:E; [|discriminate]. injection H as <-. cbn. auto.
  - destruct (starts_with (c :: t) sub) eqn:E; [injection H as <-; cbn; split; [auto | lia]|].
    destruct (find t sub) as [j|] eqn:F; [|discriminate]. injection H as <-. destruct (IH j eq_refl) as [A B].
    cbn. split; [auto | lia].
Qed.

Lemma rfind_some s sub i : rfind s sub = Some i -> starts_with (skipn i s) sub = true.
Proof.
  unfold rfind. generalize (seq 0 (S (length s))). intros l.
  assert (forall acc, (forall j, acc = Some j -> starts_with (skipn j s) sub = true) ->
            fold_left (fun acc i => if starts_with (skipn i s) sub then Some i else acc) l acc = Some i ->
            starts_with (skipn i s) sub = true) as G.
  { induction l as [|k l IH]; intros acc Hacc H; cbn [fold_left] in H; [now apply Hacc|].
    eapply IH; [|exact H]. intros j Hj. destruct (starts_with (skipn k s) sub) eqn:E; [now injection Hj as <- | now apply Hacc]. }
  apply G. discriminate.
Qed.

(* partitioning loses nothing: before ++ separator ++ after is the original string (no match: the string itself) *)
Theorem partition_concat a sep : concat (s_partition a sep) = a /\ concat (s_rpartition a sep) = a.
Proof.
  unfold s_partition, s_rpartition. split.
  - destruct (find a sep) as [i|] eqn:F; cbn [concat]; [|now rewrite !app_nil_r].
    destruct (find_some _ _ _ F) as [S _]. rewrite app_nil_r. apply starts_with_split in S.
    rewrite skipn_skipn in S. rewrite (Nat.add_comm i). rewrite <- S. apply firstn_skipn.
  - destruct (rfind a sep) as [i|] eqn:F; cbn [concat]; [|now rewrite !app_nil_r].
    pose proof (rfind_some _ _ _ F) as S. rewrite app_nil_r. apply starts_with_split in S.
    rewrite skipn_skipn in S. rewrite (Nat.add_comm i). rewrite <- S. apply firstn_skipn.
Qed.

Theorem partition_first a sep b m r : s_partition a sep = [b; m; r] ->
  (m = sep /\ find a sep = Some (length b)) \/ (m = [] /\ r = [] /\ b = a /\ find a sep = None).
Proof.
  unfold s_partition. destruct (find a sep) as [i|] eqn:F; intros [= <- <- <-].
  - left. split; [reflexivity|]. destruct (find_some _ _ _ F) as [_ L]. now rewrite firstn_length_le.
  - right. auto.
Qed.

(* ---------- padding ---------- *)
Theorem pad_spec a width fill : length a < width ->
  length (s_ljust a width fill) = width /\ length (s_rjust a width fill) = width /\ length (s_center a width fill) = width /\
  s_ljust a width fill = a ++ repeat fill (width - length a) /\
  s_rjust a width fill = repeat fill (width - length a) ++ a /\
  exists l r, s_center a width fill = repeat fill l ++ a ++ repeat fill r /\ l + r = width - length a /\ (l = r \/ l = S r).
Proof.
  intros H. unfold s_ljust, s_rjust, s_center. destruct (Nat.leb_spec width (length a)); [lia|].
  rewrite !app_length, !repeat_length.
  pose proof (Nat.div_mod (width - length a) 2 ltac:(lia)) as D.
  pose proof (Nat.mod_upper_bound (width - length a) 2 ltac:(lia)) as M.
  repeat split; try lia.
  exists (width - length a - (width - length a) / 2), ((width - length a) / 2). repeat split; lia.
Qed.

(* a width not above the length truncates *)
Theorem pad_truncate a width fill : width <= length a ->
  s_ljust a width fill = firstn width a /\ s_rjust a width fill = firstn width a /\ s_center a width fill = firstn width a.
Proof. intros H. unfold s_ljust, s_rjust, s_center. destruct (Nat.leb_spec width (length a)); [auto | lia]. Qed.

(* ---------- comparisons: the lexicographic order of the strings with trailing spaces ignored ---------- *)
Lemma lex_trichotomy a b : (lex_ltb a b = true /\ list_eqb Z.eqb a b = false /\ lex_ltb b a = false) \/
                           (lex_ltb a b = false /\ list_eqb Z.eqb a b = true /\ lex_ltb b a = false) \/
                           (lex_ltb a b = false /\ list_eqb Z.eqb a b = false /\ lex_ltb b a = true).
Proof.
  revert b; induction a as [|x a IH]; intros [|y b]; cbn; auto.
  destruct (Z.ltb_spec x y), (Z.ltb_spec y x), (Z.eqb_spec x y), (Z.eqb_spec y x); try lia; cbn; auto.
Qed.

Theorem compare_spec a b :
  s_less a b = lex_ltb (trail a) (trail b) /\ s_greater a b = lex_ltb (trail b) (trail a) /\
  s_less_equal a b = negb (s_greater a b) /\ s_greater_equal a b = negb (s_less a b) /\
  s_not_equal a b = negb (s_equal a b) /\
  s_equal a b = negb (s_less a b) && negb (s_greater a b).
Proof.
  unfold s_less_equal, s_greater_equal, s_not_equal, s_greater, s_less, s_equal. repeat split; try reflexivity.
  destruct (lex_trichotomy (trail a) (trail b)) as [(A & B & C) | [(A & B & C) | (A & B & C)]]; rewrite ?A, ?B, ?C; reflexivity.
Qed.

(* ---------- lifting: every two-string operation is the positionwise function on the broadcast operands ---------- *)
Theorem str_lift2_spec {U} (f : str -> str -> U) (a b : arr str) :
  wf a -> wf b -> pos_shape (shape a) -> pos_shape (shape b) -> is_broadcastable (shape a) (shape b) = Ok tt ->
  exists r fs, str_lift2 f a b = Ok r /\ broadcast_shape (shape a) (shape b) = Ok fs /\ shape r = fs /\ wf r /\
    forall c, in_range fs c -> get (f [] []) r c = f (get [] a (bsrc (shape a) c)) (get [] b (bsrc (shape b) c)).
Proof. apply lift2_spec. Qed.

Theorem str_map_spec {U} (f : str -> U) (a : arr str) : wf a ->
  str_map f a = Ok (mk (map f (elems a)) (shape a)).
Proof. intros W. unfold str_map. apply Reshape_proofs.new_iff. split; [rewrite map_length; exact W | reflexivity]. Qed.

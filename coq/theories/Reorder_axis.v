(* The per-axis step shared by flip and roll (Reorder.v axis_apply) as a coordinate map:
   if the 1-D rearrangement h sends index i of a list of length n to index sigma n i, then along axis ax of an array of
   shape sh the result holds at coordinate c the input element at c with c[ax] replaced by sigma sh[ax] c[ax]. *)
From ArrRs Require Import Index Index_proofs Lists_proofs Axis Axis_proofs Reshape_proofs Broadcast_proofs Split Lift Reduce
  Along_proofs Reorder Reorder_proofs.

(* ---------- coordinates of a flat position, split at the first / last axis ---------- *)
Lemma prod_last sh : sh <> [] -> prod sh = prod (firstn (length sh - 1) sh) * nth (length sh - 1) sh 0.
Proof.
  intros H. destruct sh as [|x t] using rev_ind; [congruence|]. clear IHt.
  rewrite app_length. cbn [length]. replace (length t + 1 - 1) with (length t) by lia.
  rewrite firstn_app, firstn_all, Nat.sub_diag. cbn [firstn]. rewrite app_nil_r.
  rewrite app_nth2, Nat.sub_diag by lia. cbn [nth]. rewrite prod_app. cbn. lia.
Qed.

Lemma unravel_last sh q : sh <> [] -> pos_shape sh -> q < prod sh ->
  nth (length sh - 1) (unravel sh q) 0 = q mod nth (length sh - 1) sh 0 /\
  forall v, v < nth (length sh - 1) sh 0 ->
    flat sh (upd (unravel sh q) (length sh - 1) v) = (q / nth (length sh - 1) sh 0) * nth (length sh - 1) sh 0 + v.
Proof.
  revert q; induction sh as [|dd sh' IH]; intros q Hne P Hq; [congruence|].
  inversion P as [|? ? Hd P']; subst. cbn [unravel length]. replace (S (length sh') - 1) with (length sh') by lia.
  destruct sh' as [|e sh''].
  - cbn [prod length nth unravel upd flat]. cbn in Hq. rewrite Nat.div_1_r, Nat.mod_small by lia.
    split; [reflexivity|]. intros v Hv. rewrite Nat.div_small by lia. lia.
  - set (sh' := e :: sh'') in *. assert (0 < prod sh') as HL by (apply pos_shape_prod, P').
    assert (q mod prod sh' < prod sh') as Hr by (apply Nat.mod_upper_bound; lia).
    destruct (IH (q mod prod sh') ltac:(discriminate) P' Hr) as (N1 & F1).
    set (Dl := nth (length sh' - 1) sh' 0) in *.
    assert (0 < Dl) as HDl by (apply pos_shape_nth; [exact P' | unfold sh'; cbn; lia]).
    pose proof (prod_last sh' ltac:(discriminate)) as PL. fold Dl in PL. set (M := prod (firstn (length sh' - 1) sh')) in *.
    assert (length sh' = S (length sh' - 1)) as Ls by (unfold sh'; cbn; lia).
    replace (nth (length sh') (dd :: sh') 0) with Dl by (rewrite Ls at 1; reflexivity).
    split.
    + rewrite Ls at 1. cbn [nth]. rewrite N1. rewrite PL. apply mod_mul_mod; [lia|].
      destruct M; [lia | lia].
    + intros v Hv. rewrite Ls at 1. cbn [upd flat]. rewrite (F1 v Hv).
      pose proof (Nat.div_mod q (prod sh') ltac:(lia)) as DM.
      assert (q / Dl = (q / prod sh') * M + (q mod prod sh') / Dl) as ->.
      { rewrite DM at 1. rewrite PL at 1. replace (M * Dl * (q / prod sh')) with ((q / prod sh') * M * Dl) by lia.
        rewrite Nat.div_add_l by lia. reflexivity. }
      rewrite PL. lia.
Qed.

Section AxisApply.
Context {T : Type} (dflt : T).
Variable h : forall A : Type, list A -> list A.
Variable sigma : nat -> nat -> nat.
Hypothesis h_length : forall A (l : list A), length (h A l) = length l.
Hypothesis h_nth : forall A (l : list A) d i, i < length l -> nth i (h A l) d = nth (sigma (length l) i) l d.
Hypothesis sigma_lt : forall n i, i < n -> sigma n i < n.

Lemma h_In A (l : list A) x : In x (h A l) -> In x l.
Proof.
  intros H. apply In_nth with (d := x) in H as (i & Hi & E). rewrite h_length in Hi. rewrite h_nth in E by exact Hi.
  rewrite <- E. apply nth_In. apply sigma_lt, Hi.
Qed.

(* the specified result: position q holds the input element at the coordinate of q with the axis entry replaced *)
Definition axis_perm (es : list T) (sh : list nat) (ax : nat) : list T :=
  map (fun q => let c := unravel sh q in nth (flat sh (upd c ax (sigma (nth ax sh 0) (nth ax c 0)))) es dflt) (seq 0 (prod sh)).

Lemma chunk_elems_nth (es : list T) L j k : k < L -> (j + 1) * L <= length es ->
  nth k (elems (chunk es L j)) dflt = nth (j * L + k) es dflt.
Proof. intros Hk Hl. unfold chunk. cbn [elems]. rewrite nth_firstn_lt by exact Hk. apply nth_skipn_add. Qed.

Lemma chunk_length (es : list T) L j : (j + 1) * L <= length es -> length (elems (chunk es L j)) = L.
Proof. intros H. unfold chunk. cbn [elems]. rewrite firstn_length, skipn_length. lia. Qed.

Theorem axis_apply_spec ax : forall sh es, pos_shape sh -> ax < length sh -> length es = prod sh ->
  axis_apply dflt h es sh ax = Ok (axis_perm es sh ax).
Proof.
  induction ax as [|ax' IH]; intros sh es P Hax Len.
  - (* axis 0 *)
    destruct sh as [|p rest]; [cbn in Hax; lia|]. inversion P as [|? ? Hp Pr]; subst.
    set (L := prod rest). assert (0 < L) as HL by (apply pos_shape_prod, Pr).
    cbn [axis_apply]. rewrite flat_arr_ok. cbn [bind nth].
    rewrite (split_even_1d dflt (mk es [length es]) p L (Some 0)); cbn [shape elems];
      [| unfold wf; cbn; lia | rewrite Len; reflexivity | exact Hp | exact HL | now right]. cbn [bind]. f_equal.
    set (parts := map (chunk es L) (seq 0 p)).
    assert (length parts = p) as Lp by (unfold parts; now rewrite map_length, seq_length).
    assert (forall x, In x (h _ parts) -> length (elems x) = L) as U.
    { intros x Hx. apply h_In in Hx. unfold parts in Hx. apply in_map_iff in Hx as (j & <- & Hj). apply in_seq in Hj.
      apply chunk_length. cbn [prod] in Len. fold L in Len. nia. }
    apply (nth_ext _ _ dflt dflt).
    + rewrite (length_flat_map_uniform _ _ L U), h_length, Lp. unfold axis_perm. rewrite map_length, seq_length. reflexivity.
    + intros q Hq. rewrite (length_flat_map_uniform _ _ L U), h_length, Lp in Hq.
      unfold axis_perm. rewrite nth_map_seq by (cbn [prod]; exact Hq). cbn zeta. cbn [unravel nth upd flat]. fold L.
      pose proof (Nat.div_mod q L ltac:(lia)) as DM.
      assert (q / L < p) as Hi by (apply Nat.div_lt_upper_bound; lia).
      assert (q mod L < L) as Hk by (apply Nat.mod_upper_bound; lia).
      replace q with (q / L * L + q mod L) at 1 by lia.
      rewrite (nth_flat_map_uniform (@elems T) (h _ parts) L (q / L) (q mod L) (mk [] []) dflt U)
        by (rewrite ?h_length, ?Lp; auto).
      rewrite h_nth by (rewrite Lp; exact Hi). rewrite Lp.
      unfold parts. rewrite (nth_indep _ _ (chunk es L 0)) by (rewrite map_length, seq_length; apply sigma_lt, Hi).
      rewrite map_nth, seq_nth by (apply sigma_lt, Hi). cbn [Nat.add].
      pose proof (sigma_lt p (q / L) Hi) as Hs.
      rewrite chunk_elems_nth by (auto; cbn [prod] in Len; fold L in Len; nia).
      rewrite flat_unravel by exact Hk. reflexivity.
  - destruct sh as [|p rest]; [cbn in Hax; lia|]. inversion P as [|? ? Hp Pr]; subst.
    cbn [axis_apply]. rewrite flat_arr_ok. cbn [bind].
    destruct (Nat.eqb_spec (S ax') (length (p :: rest) - 1)) as [Elast|Ninner].
    + (* last axis *)
      set (sh := p :: rest) in *. assert (sh <> []) as Hne by discriminate.
      pose proof (prod_last sh Hne) as PL. rewrite <- Elast in PL.
      set (Pn := prod (firstn (S ax') sh)) in *. set (Dl := nth (S ax') sh 0) in *.
      assert (0 < Dl) as HD by (apply pos_shape_nth; [exact P | exact Hax]).
      assert (0 < prod sh) as Hps by (apply pos_shape_prod, P).
      assert (0 < Pn) as HP by (destruct Pn; [lia | lia]).
      rewrite (split_even_1d dflt (mk es [length es]) Pn Dl None); cbn [shape elems];
        [| unfold wf; cbn; lia | rewrite Len, PL; reflexivity | exact HP | exact HD | now left]. cbn [bind]. f_equal.
      set (lanes := map (chunk es Dl) (seq 0 Pn)).
      assert (length lanes = Pn) as Ll by (unfold lanes; now rewrite map_length, seq_length).
      assert (forall x, In x lanes -> length (h _ (elems x)) = Dl) as U.
      { intros x Hx. rewrite h_length. unfold lanes in Hx. apply in_map_iff in Hx as (j & <- & Hj). apply in_seq in Hj.
        apply chunk_length. nia. }
      apply (nth_ext _ _ dflt dflt).
      * rewrite (length_flat_map_uniform _ _ Dl U), Ll. unfold axis_perm. rewrite map_length, seq_length. lia.
      * intros q Hq. rewrite (length_flat_map_uniform _ _ Dl U), Ll in Hq.
        assert (q < prod sh) as Hq' by lia.
        unfold axis_perm. rewrite nth_map_seq by exact Hq'. cbn zeta.
        destruct (unravel_last sh q Hne P Hq') as (N1 & F1). rewrite <- Elast in N1, F1. fold Dl in N1, F1.
        pose proof (Nat.div_mod q Dl ltac:(lia)) as DM.
        assert (q / Dl < Pn) as Hj by (apply Nat.div_lt_upper_bound; lia).
        assert (q mod Dl < Dl) as Hk by (apply Nat.mod_upper_bound; lia).
        fold Dl. rewrite N1. rewrite (F1 _ (sigma_lt Dl _ Hk)).
        replace q with (q / Dl * Dl + q mod Dl) at 1 by lia.
        rewrite (nth_flat_map_uniform (fun l => h _ (elems l)) lanes Dl (q / Dl) (q mod Dl) (mk [] []) dflt U)
          by (rewrite ?Ll; auto).
        unfold lanes. rewrite (nth_indep _ _ (chunk es Dl 0)) by (rewrite map_length, seq_length; exact Hj).
        rewrite map_nth, seq_nth by exact Hj. cbn [Nat.add].
        assert ((q / Dl + 1) * Dl <= length es) as Hb by nia.
        rewrite h_nth by (rewrite chunk_length by exact Hb; exact Hk). rewrite chunk_length by exact Hb.
        apply chunk_elems_nth; [apply sigma_lt, Hk | exact Hb].
    + (* inner axis: recurse into the leading slabs *)
      set (L := prod rest). assert (0 < L) as HL by (apply pos_shape_prod, Pr). cbn [nth tl].
      rewrite (split_even_1d dflt (mk es [length es]) p L None); cbn [shape elems];
        [| unfold wf; cbn; lia | rewrite Len; reflexivity | exact Hp | exact HL | now left]. cbn [bind].
      assert (ax' < length rest) as Hax' by (cbn [length] in Hax; lia).
      rewrite (mapM_ok _ (fun s => axis_perm (elems s) rest ax')).
      * cbn [bind]. f_equal. rewrite map_map.
        set (pieces := map (fun j => axis_perm (elems (chunk es L j)) rest ax') (seq 0 p)).
        assert (forall x, In x pieces -> length x = L) as U.
        { intros x Hx. unfold pieces in Hx. apply in_map_iff in Hx as (j & <- & _). unfold axis_perm. now rewrite map_length, seq_length. }
        assert (length pieces = p) as Lp by (unfold pieces; now rewrite map_length, seq_length).
        replace (concat pieces) with (flat_map (fun x : list T => x) pieces) by (rewrite flat_map_concat_map, map_id; reflexivity).
        apply (nth_ext _ _ dflt dflt).
        -- rewrite (length_flat_map_uniform _ _ L U), Lp. unfold axis_perm. rewrite map_length, seq_length. reflexivity.
        -- intros q Hq. rewrite (length_flat_map_uniform _ _ L U), Lp in Hq.
           unfold axis_perm. rewrite nth_map_seq by (cbn [prod]; exact Hq). cbn zeta. cbn [unravel nth upd flat]. fold L.
           pose proof (Nat.div_mod q L ltac:(lia)) as DM.
           assert (q / L < p) as Hi by (apply Nat.div_lt_upper_bound; lia).
           assert (q mod L < L) as Hk by (apply Nat.mod_upper_bound; lia).
           replace q with (q / L * L + q mod L) at 1 by lia.
           rewrite (nth_flat_map_uniform (fun x => x) pieces L (q / L) (q mod L) [] dflt U) by (rewrite ?Lp; auto).
           unfold pieces. rewrite (nth_indep _ _ (axis_perm (elems (chunk es L 0)) rest ax')) by (rewrite map_length, seq_length; exact Hi).
           rewrite (map_nth (fun j => axis_perm (elems (chunk es L j)) rest ax')), seq_nth by exact Hi. cbn [Nat.add].
           unfold axis_perm. rewrite nth_map_seq by exact Hk. cbn zeta.
           assert ((q / L + 1) * L <= length es) as Hb by (cbn [prod] in Len; fold L in Len; nia).
           apply chunk_elems_nth; [|exact Hb].
           apply flat_lt.
           pose proof (unravel_in_range rest (q mod L) Hk) as IR.
           rewrite upd_as_insert_remove by (apply in_range_length in IR; lia).
           rewrite <- (insert_remove_nth rest ax' 0 Hax') at 1. apply in_range_insert.
           ++ rewrite remove_nth_length by exact Hax'. lia.
           ++ apply in_range_remove, IR.
           ++ apply sigma_lt. apply (proj1 (in_range_nth rest _) IR). exact Hax'.
      * intros x Hx. apply in_map_iff in Hx as (j & <- & Hj). apply in_seq in Hj.
        assert ((j + 1) * L <= length es) as Hb by (cbn [prod] in Len; fold L in Len; nia).
        rewrite reshape_iff by (unfold len; rewrite chunk_length by exact Hb; reflexivity). cbn [bind elems].
        apply IH; [exact Pr | exact Hax' | apply chunk_length, Hb].
Qed.

(* read as a statement about coordinates *)
Corollary axis_apply_get ax sh es c : pos_shape sh -> ax < length sh -> length es = prod sh -> in_range sh c ->
  nth (flat sh c) (axis_perm es sh ax) dflt = nth (flat sh (upd c ax (sigma (nth ax sh 0) (nth ax c 0)))) es dflt.
Proof.
  intros P Hax Len Hc. unfold axis_perm. rewrite nth_map_seq by (apply flat_lt, Hc). cbn zeta.
  now rewrite unravel_flat by exact Hc.
Qed.

End AxisApply.

(* ---------- the two instances ---------- *)
Lemma rev_nth_sigma {A} (l : list A) d i : i < length l -> nth i (rev l) d = nth (length l - 1 - i) l d.
Proof. intros H. rewrite rev_nth by exact H. f_equal. lia. Qed.

Definition rot_src (s : Z) (n i : nat) : nat := Z.to_nat ((Z.of_nat i - s) mod Z.of_nat n).

Lemma rot_src_lt s n i : i < n -> rot_src s n i < n.
Proof. intros H. unfold rot_src. pose proof (Z.mod_pos_bound (Z.of_nat i - s) (Z.of_nat n) ltac:(lia)). lia. Qed.

Lemma rotate_nth_sigma {A} (l : list A) s d i : i < length l -> nth i (rotate l s) d = nth (rot_src s (length l) i) l d.
Proof.
  intros H. pose proof (rot_src_lt s (length l) i H) as L.
  rewrite <- (rotate_spec d l s (rot_src s (length l) i) L). f_equal.
  unfold rot_src. rewrite Z2Nat.id by (apply Z.mod_pos_bound; lia).
  rewrite Zplus_mod_idemp_l. replace (Z.of_nat i - s + s)%Z with (Z.of_nat i) by lia.
  rewrite Z.mod_small by lia. lia.
Qed.

Section FlipRoll.
Context {T : Type} (dflt : T).

Theorem flip_axis_spec es sh ax : pos_shape sh -> ax < length sh -> length es = prod sh ->
  flip_axis dflt es sh ax = Ok (axis_perm dflt (fun n i => n - 1 - i) es sh ax).
Proof.
  intros. unfold flip_axis. apply (axis_apply_spec dflt (@rev) (fun n i => n - 1 - i)); auto.
  - intros; apply rev_length.
  - intros; now apply rev_nth_sigma.
  - intros; lia.
Qed.

Theorem roll_axis_spec es sh ax s : pos_shape sh -> ax < length sh -> length es = prod sh ->
  roll_axis dflt es sh ax s = Ok (axis_perm dflt (rot_src s) es sh ax).
Proof.
  intros. unfold roll_axis. apply (axis_apply_spec dflt (fun A l => rotate l s) (rot_src s)); auto.
  - intros; apply rotate_length.
  - intros; now apply rotate_nth_sigma.
  - intros; now apply rot_src_lt.
Qed.

Lemma axis_perm_length sigma es sh ax : length (axis_perm dflt sigma es sh ax) = prod sh.
Proof. unfold axis_perm. now rewrite map_length, seq_length. Qed.

(* FLIP along one axis: the element at c comes from c with the axis entry mirrored; nothing else moves *)
Theorem flip_one_axis (a : arr T) z :
  wf a -> pos_shape (shape a) -> (Z.of_nat (ndim a) < two64)%Z -> axis_ok (ndim a) z ->
  let ax := norm_nat (ndim a) z in
  exists R, flip dflt a (Some [z]) = Ok R /\ wf R /\ shape R = shape a /\
    forall c, in_range (shape a) c ->
      get dflt R c = get dflt a (upd c ax (nth ax (shape a) 0 - 1 - nth ax c 0)).
Proof.
  intros W P B Hz ax. destruct (normalize_axis_ok _ _ B Hz) as [En Lax]. fold ax in En, Lax.
  unfold flip. cbn [map forallb]. rewrite En. destruct (Z.ltb_spec (Z.of_nat ax) (Z.of_nat (ndim a))); [|lia].
  cbn [andb guard bind fold_left]. rewrite Nat2Z.id. rewrite flip_axis_spec by auto. cbn [bind].
  rewrite flat_arr_ok. cbn [bind]. rewrite reshape_iff by (unfold len; cbn [elems]; now rewrite axis_perm_length).
  eexists. split; [reflexivity|]. cbn [elems shape]. split; [unfold wf; cbn [elems shape]; apply axis_perm_length|].
  split; [reflexivity|]. intros c Hc. unfold get. cbn [elems shape]. apply axis_apply_get; auto.
Qed.

(* several axes in one list: flip along the first, then the rest *)
Theorem flip_cons (a : arr T) z l :
  wf a -> pos_shape (shape a) -> (Z.of_nat (ndim a) < two64)%Z -> axis_ok (ndim a) z ->
  Forall (axis_ok (ndim a)) l ->
  flip dflt a (Some (z :: l)) = (let* a1 := flip dflt a (Some [z]) in flip dflt a1 (Some l)).
Proof.
  intros W P B Hz Hl. destruct (flip_one_axis a z W P B Hz) as (R & E & WR & SR & _). rewrite E. cbn [bind].
  destruct (normalize_axis_ok _ _ B Hz) as [En Lax].
  assert (forallb (fun ax => (ax <? Z.of_nat (ndim a))%Z) (map (normalize_axis (ndim a)) l) = true) as Fl.
  { apply forallb_forall. intros x Hx. apply in_map_iff in Hx as (y & <- & Hy). rewrite Forall_forall in Hl.
    destruct (normalize_axis_ok _ _ B (Hl y Hy)) as [E' L']. rewrite E'. apply Z.ltb_lt. lia. }
  unfold flip in E |- *. cbn [map forallb] in E |- *. rewrite En in E |- *.
  destruct (Z.ltb_spec (Z.of_nat (norm_nat (ndim a) z)) (Z.of_nat (ndim a))); [|lia].
  assert (ndim R = ndim a) as NR by (unfold ndim; now rewrite SR). rewrite NR, SR, Fl.
  cbn [andb guard bind fold_left] in E |- *. rewrite Nat2Z.id in E |- *.
  rewrite flip_axis_spec in E |- * by auto. cbn [bind] in E |- *.
  rewrite flat_arr_ok in E. cbn [bind] in E. rewrite reshape_iff in E by (unfold len; cbn [elems]; now rewrite axis_perm_length).
  injection E as <-. cbn [elems]. reflexivity.
Qed.

Lemma accumulate_single n s z :
  accumulate_shifts n [(s, z)] = [(Z.to_nat (normalize_axis n z), s)].
Proof.
  unfold accumulate_shifts. cbn [fold_left existsb fst snd]. set (ax := Z.to_nat (normalize_axis n z)).
  rewrite Nat.max_0_l. rewrite seq_S, map_app, filter_app. cbn [Nat.add map filter fst].
  rewrite Nat.eqb_refl. cbn [orb]. replace (0 + s)%Z with s by lia.
  assert (forall k0 m, k0 + m <= ax ->
            filter (fun p : nat * Z => (ax =? fst p) || false)
              (map (fun k => (k, if ax =? k then (0 + s)%Z else 0%Z)) (seq k0 m)) = []) as E.
  { intros k0 m; revert k0; induction m as [|m IH]; intros k0 H; cbn [seq map filter fst]; [reflexivity|].
    destruct (Nat.eqb_spec ax k0); [lia|]. cbn [orb]. apply IH. lia. }
  rewrite E by lia. reflexivity.
Qed.

(* ROLL along one axis of an array of rank >= 2: the element at c comes from c with the axis entry moved back by the
   shift, modulo the axis length (any integer shift) *)
Theorem roll_one_axis (a : arr T) s z :
  wf a -> pos_shape (shape a) -> (Z.of_nat (ndim a) < two64)%Z -> axis_ok (ndim a) z -> 2 <= ndim a ->
  let ax := norm_nat (ndim a) z in
  exists R, roll dflt a [s] (Some [z]) = Ok R /\ wf R /\ shape R = shape a /\
    forall c, in_range (shape a) c ->
      get dflt R c = get dflt a (upd c ax (rot_src s (nth ax (shape a) 0) (nth ax c 0))).
Proof.
  intros W P B Hz N2 ax. destruct (normalize_axis_ok _ _ B Hz) as [En Lax]. fold ax in En, Lax.
  unfold roll. cbn [bind forallb]. rewrite En. destruct (Z.ltb_spec (Z.of_nat ax) (Z.of_nat (ndim a))); [|lia].
  cbn [andb guard bind]. rewrite !flat_arr_ok. cbn [bind length].
  change (broadcast 0%Z 0%Z {| elems := [s]; shape := [1] |} {| elems := [z]; shape := [1] |})
    with (Ok {| elems := [(s, z)]; shape := [1] |}).
  cbn [bind ndim shape length Nat.ltb Nat.leb elems]. rewrite accumulate_single, En, Nat2Z.id.
  destruct (ndim a) as [|[|n]] eqn:Nd; try lia. fold (ndim a). cbn [fold_left fst snd bind].
  rewrite roll_axis_spec by (auto; unfold ndim in Nd; lia). cbn [bind].
  eexists. split; [apply new_iff; split; [apply axis_perm_length | reflexivity]|].
  split; [unfold wf; cbn [elems shape]; apply axis_perm_length|]. split; [reflexivity|].
  intros c Hc. unfold get. cbn [elems shape]. apply axis_apply_get; auto. unfold ndim in Nd. lia.
Qed.

End FlipRoll.

(* ---------- quarter turns ---------- *)
Lemma swap_list_length l i j : length (swap_list l i j) = length l.
Proof. unfold swap_list. now rewrite !upd_length. Qed.

Lemma pick_swap c i j : i < length c -> j < length c ->
  pick (swap_list (seq 0 (length c)) i j) c = swap_list c i j.
Proof.
  intros Hi Hj. apply (nth_ext _ _ 0 0).
  - now rewrite pick_length, !swap_list_length, seq_length.
  - intros k Hk. rewrite pick_length, swap_list_length, seq_length in Hk.
    rewrite nth_pick by (rewrite swap_list_length, seq_length; exact Hk).
    rewrite !nth_swap_list by (rewrite ?seq_length; assumption).
    destruct (k =? j); [now rewrite seq_nth by lia|]. destruct (k =? i); now rewrite seq_nth by lia.
Qed.

Lemma swap_list_invol l i j : i < length l -> j < length l -> swap_list (swap_list l i j) i j = l.
Proof.
  intros Hi Hj. apply (nth_ext _ _ 0 0); [now rewrite !swap_list_length|].
  intros k Hk. rewrite !swap_list_length in Hk.
  rewrite nth_swap_list by (rewrite swap_list_length; assumption). rewrite !nth_swap_list by assumption.
  rewrite !Nat.eqb_refl.
  destruct (Nat.eqb_spec k j) as [->|Nj].
  - destruct (Nat.eqb_spec i j) as [->|]; reflexivity.
  - destruct (Nat.eqb_spec k i) as [->|Ni]; [|reflexivity]. destruct (Nat.eqb_spec j i); [congruence | reflexivity].
Qed.

Lemma in_range_swap sh c i j : i < length sh -> j < length sh -> in_range sh c -> in_range (swap_list sh i j) (swap_list c i j).
Proof.
  intros Hi Hj H. apply in_range_nth. apply (proj1 (in_range_nth _ _)) in H as [L N].
  split; [now rewrite !swap_list_length|]. intros k Hk. rewrite swap_list_length in Hk.
  rewrite !nth_swap_list by (rewrite ?L; assumption).
  destruct (k =? j); [now apply N|]. destruct (k =? i); now apply N.
Qed.

Section Transposition.
Context {T : Type} (dflt : T).

(* exchanging two axes, as a coordinate statement *)
Lemma transpose_swap_spec (a : arr T) i j :
  wf a -> i < ndim a -> j < ndim a ->
  exists R, transpose dflt a (Some (map Z.of_nat (swap_list (seq 0 (ndim a)) i j))) = Ok R /\ wf R /\
    shape R = swap_list (shape a) i j /\
    forall c, in_range (shape R) c -> get dflt R c = get dflt a (swap_list c i j).
Proof.
  intros W Hi Hj. pose proof (swap_seq_is_perm (ndim a) i j Hi Hj) as P.
  rewrite transpose_of_perm by exact P.
  destruct (transpose_perm_ok dflt a _ W ltac:(lia) P) as (R & E & WR & SR & G & _).
  exists R. split; [exact E|]. split; [exact WR|]. unfold ndim in *.
  assert (shape R = swap_list (shape a) i j) as SR' by (rewrite SR; now apply pick_swap).
  split; [exact SR'|]. intros c Hc. rewrite SR' in Hc.
  pose proof (in_range_length _ _ Hc) as Lc. rewrite swap_list_length in Lc.
  assert (in_range (shape a) (swap_list c i j)) as Hc'.
  { rewrite <- (swap_list_invol (shape a) i j Hi Hj). apply in_range_swap; rewrite ?swap_list_length; auto. }
  rewrite <- (G _ Hc'). f_equal. pose proof (in_range_length _ _ Hc') as L'. rewrite <- L'.
  rewrite pick_swap by (rewrite L'; assumption). symmetry. apply swap_list_invol; lia.
Qed.

End Transposition.

Section QuarterTurns.
Context {T : Type} (dflt : T).

Lemma pos_shape_swap sh i j : i < length sh -> j < length sh -> pos_shape sh -> pos_shape (swap_list sh i j).
Proof.
  intros Hi Hj P. unfold pos_shape in *. rewrite Forall_forall in *. intros x Hx.
  apply In_nth with (d := 0) in Hx as (k & Hk & <-). rewrite swap_list_length in Hk.
  rewrite nth_swap_list by assumption. destruct (k =? j); [apply P, nth_In, Hi|]. destruct (k =? i); apply P, nth_In; assumption.
Qed.

(* ONE QUARTER TURN in the plane of axes p, q (natural numbers below the rank): flip the second axis, then exchange
   the two axes.  The element at c comes from the coordinate with entries p and q exchanged and the q entry mirrored. *)
Theorem rot90_one (a : arr T) k p q :
  wf a -> pos_shape (shape a) -> 2 <= ndim a -> (Z.of_nat (ndim a) < two64)%Z -> p < ndim a -> q < ndim a -> k mod 4 = 1 ->
  exists R, rot90 dflt a k [Z.of_nat p; Z.of_nat q] = Ok R /\ wf R /\ shape R = swap_list (shape a) p q /\
    forall c, in_range (shape R) c ->
      get dflt R c = get dflt a (upd (swap_list c p q) q (nth q (shape a) 0 - 1 - nth p c 0)).
Proof.
  intros W P N2 B Hp Hq K. unfold rot90. destruct (Nat.ltb_spec (ndim a) 2); [lia|].
  destruct (Z.leb_spec (Z.of_nat (ndim a)) (Z.of_nat p)), (Z.ltb_spec (Z.of_nat p) (- Z.of_nat (ndim a))),
    (Z.leb_spec (Z.of_nat (ndim a)) (Z.of_nat q)), (Z.ltb_spec (Z.of_nat q) (- Z.of_nat (ndim a))); try lia. cbn [orb].
  rewrite K. cbn [Nat.eqb].
  destruct (normalize_axis_ok (ndim a) (Z.of_nat p) B (axis_ok_of_nat _ _ Hp)) as [Ep _].
  destruct (normalize_axis_ok (ndim a) (Z.of_nat q) B (axis_ok_of_nat _ _ Hq)) as [Eq _].
  rewrite Ep, Eq, !norm_nat_of_nat, !Nat2Z.id.
  destruct (flip_one_axis dflt a (Z.of_nat q) W P B (axis_ok_of_nat _ _ Hq)) as (f & Ef & Wf & Sf & Gf).
  rewrite norm_nat_of_nat in Gf. rewrite Ef. cbn [bind].
  assert (ndim f = ndim a) as Nf by (unfold ndim; now rewrite Sf).
  rewrite <- Nf. destruct (transpose_swap_spec dflt f p q Wf ltac:(lia) ltac:(lia)) as (R & ER & WR & SR & GR).
  exists R. split; [exact ER|]. split; [exact WR|]. rewrite Sf in SR. split; [exact SR|].
  intros c Hc. rewrite (GR c Hc). rewrite SR in Hc. unfold ndim in *.
  pose proof (in_range_length _ _ Hc) as Lc. rewrite swap_list_length in Lc.
  assert (in_range (shape a) (swap_list c p q)) as Hc'.
  { rewrite <- (swap_list_invol (shape a) p q Hp Hq). apply in_range_swap; rewrite ?swap_list_length; auto. }
  rewrite (Gf _ Hc'). f_equal. f_equal. rewrite nth_swap_list by lia. now rewrite Nat.eqb_refl.
Qed.

(* the count only matters modulo four *)
Theorem rot90_mod4 (a : arr T) k axes : rot90 dflt a k axes = rot90 dflt a (k mod 4) axes.
Proof. unfold rot90. now rewrite Nat.mod_mod by lia. Qed.

Ltac coord_cases c p q :=
  apply (nth_ext _ _ 0 0); [now rewrite ?upd_length, ?swap_list_length|];
  let k := fresh "k" in let Hk := fresh "Hk" in intros k Hk; rewrite ?upd_length, ?swap_list_length in Hk;
  repeat (rewrite ?nth_upd, ?nth_swap_list, ?upd_length, ?swap_list_length by (rewrite ?upd_length, ?swap_list_length; lia));
  destruct (Nat.eqb_spec q k); destruct (Nat.eqb_spec p k); destruct (Nat.eqb_spec k q); destruct (Nat.eqb_spec k p); subst; try lia;
  repeat match goal with |- context [?x <? ?y] => destruct (Nat.ltb_spec x y); try lia end; cbn [andb]; try reflexivity; try lia.

(* TWO quarter turns = the flip of both axes, = two successive single turns *)
Theorem rot90_two (a : arr T) p q :
  wf a -> pos_shape (shape a) -> 2 <= ndim a -> (Z.of_nat (ndim a) < two64)%Z -> p < ndim a -> q < ndim a -> p <> q ->
  exists R1 R, rot90 dflt a 1 [Z.of_nat p; Z.of_nat q] = Ok R1 /\ rot90 dflt R1 1 [Z.of_nat p; Z.of_nat q] = Ok R /\
    rot90 dflt a 2 [Z.of_nat p; Z.of_nat q] = Ok R /\ shape R = shape a /\
    forall c, in_range (shape a) c ->
      get dflt R c = get dflt a (upd (upd c p (nth p (shape a) 0 - 1 - nth p c 0)) q (nth q (shape a) 0 - 1 - nth q c 0)).
Proof.
  intros W P N2 B Hp Hq Npq.
  destruct (rot90_one a 1 p q W P N2 B Hp Hq eq_refl) as (R1 & E1 & W1 & S1 & G1).
  assert (ndim R1 = ndim a) as N1 by (unfold ndim; rewrite S1; apply swap_list_length).
  assert (pos_shape (shape R1)) as P1 by (rewrite S1; apply pos_shape_swap; auto).
  destruct (rot90_one R1 1 p q W1 P1 ltac:(lia) ltac:(rewrite N1; exact B) ltac:(lia) ltac:(lia) eq_refl) as (R & E2 & W2 & S2 & G2).
  exists R1, R. split; [exact E1|]. split; [exact E2|].
  assert (shape R = shape a) as SR by (rewrite S2, S1; apply swap_list_invol; auto).
  (* the coordinate map of the two turns *)
  assert (forall c, in_range (shape a) c ->
            get dflt R c = get dflt a (upd (upd c p (nth p (shape a) 0 - 1 - nth p c 0)) q (nth q (shape a) 0 - 1 - nth q c 0))) as GR.
  { intros c Hc. pose proof (in_range_length _ _ Hc) as Lc. unfold ndim in *.
    pose proof (proj1 (in_range_nth _ _) Hc) as [_ Nc].
    rewrite (G2 c) by (rewrite SR; exact Hc). rewrite S1.
    set (c1 := upd (swap_list c p q) q (nth q (swap_list (shape a) p q) 0 - 1 - nth p c 0)).
    assert (in_range (shape R1) c1) as H1.
    { rewrite S1. apply in_range_nth. split; [unfold c1; now rewrite upd_length, !swap_list_length|].
      intros k Hk. rewrite swap_list_length in Hk. unfold c1.
      rewrite nth_upd, ?upd_length, ?swap_list_length. rewrite !nth_swap_list by lia.
      pose proof (Nc p Hp). pose proof (Nc q Hq). pose proof (Nc k Hk).
      destruct (Nat.ltb_spec q (length c)); [|lia].
      destruct (Nat.eqb_spec q k); destruct (Nat.eqb_spec k q); destruct (Nat.eqb_spec k p); cbn [andb]; subst; rewrite ?Nat.eqb_refl; try lia. }
    rewrite (G1 c1 H1). f_equal. unfold c1. rewrite !nth_swap_list by lia. rewrite !Nat.eqb_refl.
    destruct (Nat.eqb_spec q p); [congruence|].
    pose proof (Nc p Hp). pose proof (Nc q Hq).
    apply (nth_ext _ _ 0 0); [repeat rewrite ?upd_length, ?swap_list_length; reflexivity|].
    intros k Hk. repeat rewrite ?upd_length, ?swap_list_length in Hk.
    repeat (rewrite ?nth_upd, ?nth_swap_list, ?upd_length, ?swap_list_length by (rewrite ?upd_length, ?swap_list_length; lia)).
    destruct (Nat.ltb_spec q (length c)); [|lia]. destruct (Nat.ltb_spec p (length c)); [|lia].
    destruct (Nat.eqb_spec q k); destruct (Nat.eqb_spec p k); destruct (Nat.eqb_spec k q); destruct (Nat.eqb_spec k p); cbn [andb]; subst; rewrite ?Nat.eqb_refl;
      repeat (match goal with |- context [?x =? ?y] => destruct (Nat.eqb_spec x y); try lia end; cbn [andb]); try lia; try reflexivity. }
  split; [|split; [exact SR | exact GR]].
  (* the model's own two-turn form: flip the second axis, then the first *)
  unfold rot90. destruct (Nat.ltb_spec (ndim a) 2); [lia|].
  destruct (Z.leb_spec (Z.of_nat (ndim a)) (Z.of_nat p)), (Z.ltb_spec (Z.of_nat p) (- Z.of_nat (ndim a))),
    (Z.leb_spec (Z.of_nat (ndim a)) (Z.of_nat q)), (Z.ltb_spec (Z.of_nat q) (- Z.of_nat (ndim a))); try lia. cbn [orb].
  change (2 mod 4) with 2.
  destruct (flip_one_axis dflt a (Z.of_nat q) W P B (axis_ok_of_nat _ _ Hq)) as (f & Ef & Wf & Sf & Gf).
  rewrite norm_nat_of_nat in Gf. rewrite Ef. cbn [bind].
  assert (ndim f = ndim a) as Nf by (unfold ndim; now rewrite Sf).
  destruct (flip_one_axis dflt f (Z.of_nat p) Wf ltac:(rewrite Sf; exact P) ltac:(rewrite Nf; exact B)
              ltac:(apply axis_ok_of_nat; lia)) as (g & Eg & Wg & Sg & Gg).
  rewrite norm_nat_of_nat in Gg. rewrite Eg. f_equal. apply (array_ext dflt); auto; [congruence|].
  intros c Hc. rewrite Sg, Sf in Hc. rewrite (Gg c) by (rewrite Sf; exact Hc). rewrite Sf.
  pose proof (in_range_length _ _ Hc) as Lc. unfold ndim in *. pose proof (proj1 (in_range_nth _ _) Hc) as [_ Nc].
  pose proof (Nc p Hp). pose proof (Nc q Hq).
  rewrite Gf.
  - rewrite (GR c Hc). f_equal. rewrite nth_upd. destruct (Nat.eqb_spec p q); [congruence|]. cbn [andb]. reflexivity.
  - apply in_range_nth. split; [now rewrite upd_length|]. intros k Hk. rewrite nth_upd.
    destruct (Nat.ltb_spec p (length c)); [|lia]. destruct (Nat.eqb_spec p k); cbn [andb]; [subst; lia | apply Nc; lia].
Qed.

End QuarterTurns.

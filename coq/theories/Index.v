(* Index.v — coordinates and flat positions (src/core/operations/indexing.rs:149-180,
   src/core/operations/ops.rs:8-25) and the declarative row-major specification. *)
From ArrRs Require Export Arr.

(* ---------- specification ---------- *)

(* Horner form: the last axis varies fastest *)
Fixpoint flat (sh c : list nat) : nat :=
  match sh, c with
  | _ :: sh', i :: c' => i * prod sh' + flat sh' c'
  | _, _ => 0
  end.

Fixpoint unravel (sh : list nat) (i : nat) : list nat :=
  match sh with
  | [] => []
  | _ :: sh' => i / prod sh' :: unravel sh' (i mod prod sh')
  end.

Fixpoint in_range (sh c : list nat) : Prop :=
  match sh, c with
  | [], [] => True
  | d :: sh', i :: c' => i < d /\ in_range sh' c'
  | _, _ => False
  end.

Fixpoint in_rangeb (sh c : list nat) : bool :=
  match sh, c with
  | [], [] => true
  | d :: sh', i :: c' => (i <? d) && in_rangeb sh' c'
  | _, _ => false
  end.

(* lexicographic order on coordinate vectors of equal length *)
Fixpoint lex_lt (c c' : list nat) : Prop :=
  match c, c' with
  | i :: r, j :: r' => i < j \/ (i = j /\ lex_lt r r')
  | _, _ => False
  end.

(* ---------- model of the code ---------- *)

(* indexing.rs:149 index_at — validation, then the reversed (index, stride) fold *)
Definition index_at_fold (c sh : list nat) : nat * nat :=
  fold_left (fun (acc : nat * nat) (p : nat * nat) =>
               let '(index, stride) := acc in let '(ci, dim) := p in
               (index + ci * stride, stride * dim))
            (rev (combine c sh)) (0, 1).

Definition index_at (sh c : list nat) : res nat :=
  if negb (length sh =? length c) then Err EParam
  else if existsb (fun i => nth i sh 0 <=? nth i c 0) (seq 0 (length c)) then Err EParam
  else Ok (fst (index_at_fold c sh)).

(* indexing.rs:164 index_to_coord — `%` and `/` from the last axis, then reverse.
   n is self.len() *)
Definition index_to_coord_fold (sh : list nat) (idx : nat) : nat * list nat :=
  fold_left (fun (acc : nat * list nat) (dim : nat) =>
               let '(ri, coords) := acc in (ri / dim, coords ++ [ri mod dim]))
            (rev sh) (idx, []).

Definition index_to_coord (n : nat) (sh : list nat) (idx : nat) : res (list nat) :=
  if n <=? idx then Err EParam
  else Ok (rev (snd (index_to_coord_fold sh idx))).

Section At.
Context {T : Type}.

(* Vec indexing: out of bounds panics *)
Definition vec_get (l : list T) (i : nat) : res T :=
  match nth_error l i with Some x => Ok x | None => Panic end.

(* indexing.rs:177 at *)
Definition at_ (a : arr T) (c : list nat) : res T :=
  let* i := index_at (shape a) c in vec_get (elems a) i.

(* ops.rs:8 Index<usize> *)
Definition index_usize (a : arr T) (i : nat) : res T := vec_get (elems a) i.

(* ops.rs:16 Index<&[usize]> : unwrap_or_else(panic) *)
Definition index_coords (a : arr T) (c : list nat) : res T :=
  let* i := unwrap (index_at (shape a) c) in vec_get (elems a) i.

(* declarative lookup *)
Definition get (d : T) (a : arr T) (c : list nat) : T := nth (flat (shape a) c) (elems a) d.

End At.

(* Arr.v — the array value and its constructors (src/core/array/mod.rs,
   src/core/operations/create.rs, meta.rs, validators/shape.rs matches_values_len) *)
From ArrRs Require Export Base.

Section Arr.
Context {T : Type}.

Record arr := mk { elems : list T; shape : list nat }.

Definition wf (a : arr) : Prop := length (elems a) = prod (shape a).
Definition wfb (a : arr) : bool := length (elems a) =? prod (shape a).

(* validators/shape.rs:33 *)
Definition matches_values_len (sh : list nat) (es : list T) : res unit :=
  guard (prod sh =? length es) EShapeLen.

(* create.rs:122 *)
Definition new (es : list T) (sh : list nat) : res arr :=
  let* _ := matches_values_len sh es in Ok (mk es sh).

(* meta.rs *)
Definition len (a : arr) : nat := length (elems a).
Definition ndim (a : arr) : nat := length (shape a).
Definition is_empty (a : arr) : bool := len a =? 0.

(* manipulate.rs reshape *)
Definition reshape (a : arr) (sh : list nat) : res arr := new (elems a) sh.

Definition single (x : T) : res arr := new [x] [1].
Definition flat_arr (es : list T) : res arr := new es [length es].
Definition empty : res arr := new [] [0].

(* create.rs:127 *)
Definition create (es : list T) (sh : list nat) (ndmin : option nat) : res arr :=
  let nd := match ndmin with Some n => n | None => 0 end in
  let array := new es sh in
  if length sh <? nd then
    let* a := array in reshape a (repeat 1 (nd - length sh) ++ sh)
  else array.

(* manipulate.rs ravel *)
Definition ravel (a : arr) : res arr := new (elems a) [len a].

End Arr.
Arguments arr T : clear implicits.

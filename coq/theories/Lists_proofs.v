(* generic list lemmas used by the proofs *)
From ArrRs Require Import Base.
From Coq Require Import Permutation.

Lemma upd_length {A} (l : list A) i x : length (upd l i x) = length l.
Proof. revert i; induction l as [|h t IH]; intros [|i]; cbn; auto. Qed.

Lemma nth_upd_eq {A} (l : list A) i x d : i < length l -> nth i (upd l i x) d = x.
Proof. revert i; induction l as [|h t IH]; intros [|i] H; cbn in *; try lia; auto. apply IH. lia. Qed.

Lemma nth_upd_neq {A} (l : list A) i j x d : i <> j -> nth j (upd l i x) d = nth j l d.
Proof.
  revert i j; induction l as [|h t IH]; intros [|i] [|j] H; cbn; auto; try lia.
Qed.

Lemma nth_upd {A} (l : list A) i j x d :
  nth j (upd l i x) d = if (i =? j) && (i <? length l) then x else nth j l d.
Proof.
  destruct (Nat.eqb_spec i j) as [->|N]; cbn [andb].
  - destruct (Nat.ltb_spec j (length l)) as [L|L].
    + now apply nth_upd_eq.
    + rewrite !nth_overflow; auto. now rewrite upd_length.
  - now apply nth_upd_neq.
Qed.

Lemma remove_nth_length {A} (l : list A) i : i < length l -> length (remove_nth l i) = length l - 1.
Proof.
  revert i; induction l as [|h t IH]; intros [|i] H; cbn in *; try lia.
  rewrite IH by lia. lia.
Qed.

Lemma insert_nth_length {A} (l : list A) i x : length (insert_nth l i x) = S (length l).
Proof. revert i; induction l as [|h t IH]; intros [|i]; cbn; auto. Qed.

Lemma map_nth_seq {A} (l : list A) d : map (fun i => nth i l d) (seq 0 (length l)) = l.
Proof.
  induction l as [|h t IH]; cbn; auto. f_equal. rewrite <- seq_shift, map_map. exact IH.
Qed.

Lemma nth_map_lt {A B} (f : A -> B) l i da db : i < length l -> nth i (map f l) db = f (nth i l da).
Proof. revert i; induction l as [|h t IH]; intros [|i] H; cbn in *; try lia; auto. apply IH. lia. Qed.

Lemma NoDup_map_in {A B} (f : A -> B) l :
  (forall x y, In x l -> In y l -> f x = f y -> x = y) -> NoDup l -> NoDup (map f l).
Proof.
  induction l as [|h t IH]; intros Inj ND; cbn; [constructor|].
  inversion ND as [|? ? Hh ND']; subst. constructor.
  - intros I. apply in_map_iff in I as (y & E & Hy). apply Hh.
    rewrite <- (Inj y h); auto; [now right | now left].
  - apply IH; auto. intros x y Hx Hy. apply Inj; now right.
Qed.

Lemma skipn_skipn {A} (x y : nat) (l : list A) : skipn x (skipn y l) = skipn (x + y) l.
Proof.
  revert l; induction y as [|y IH]; intros l; cbn [skipn].
  - now rewrite Nat.add_0_r.
  - destruct l as [|h t]; [now rewrite !skipn_nil|]. rewrite Nat.add_succ_r. cbn [skipn]. apply IH.
Qed.

Lemma nth_firstn_lt {A} (l : list A) n i d : i < n -> nth i (firstn n l) d = nth i l d.
Proof.
  revert n i; induction l as [|h t IH]; intros [|n] [|i] H; cbn; auto; try lia. apply IH. lia.
Qed.

Lemma nth_skipn_add {A} (l : list A) n i d : nth i (skipn n l) d = nth (n + i) l d.
Proof.
  revert l; induction n as [|n IH]; intros l; cbn [skipn Nat.add]; auto.
  destruct l as [|h t]; [destruct i; reflexivity|]. apply IH.
Qed.

Lemma nth_repeat_lt {A} (x d : A) n i : i < n -> nth i (repeat x n) d = x.
Proof. revert i; induction n as [|n IH]; intros [|i] H; cbn; auto; try lia. apply IH. lia. Qed.

Lemma nth_insert_nth_lt' {A} (l : list A) i j x d : i < j -> j <= length l -> nth i (insert_nth l j x) d = nth i l d.
Proof.
  revert i j; induction l as [|h t IH]; intros i j H L; cbn in L; [lia|].
  destruct j as [|j]; [lia|]. destruct i as [|i]; cbn; auto. apply IH; lia.
Qed.

Lemma nth_insert_nth_gt {A} (l : list A) i j x d : j < i -> j <= length l -> nth i (insert_nth l j x) d = nth (i - 1) l d.
Proof.
  revert i j; induction l as [|h t IH]; intros i j H L; cbn in L.
  - assert (j = 0) by lia. subst. destruct i as [|i]; [lia|]. cbn. destruct i; reflexivity.
  - destruct j as [|j].
    + destruct i as [|i]; [lia|]. cbn. now rewrite Nat.sub_0_r.
    + destruct i as [|i]; [lia|]. cbn [insert_nth nth]. rewrite IH by lia.
      destruct i as [|i]; [lia|]. cbn. now rewrite Nat.sub_0_r.
Qed.

Lemma prod_perm l l' : Permutation l l' -> prod l = prod l'.
Proof. induction 1; cbn; lia. Qed.

(* scatter: folding out[g i] := v i over a duplicate-free index list on which g is injective *)
Section Scatter.
Context {T : Type} (d : T) (g : nat -> nat) (v : nat -> T).

Lemma scatter_untouched idxs init j :
  (forall i, In i idxs -> g i <> j) ->
  nth j (fold_left (fun out i => upd out (g i) (v i)) idxs init) d = nth j init d.
Proof.
  revert init; induction idxs as [|i idxs IH]; intros init H; cbn; auto.
  rewrite IH by (intros; apply H; now right).
  apply nth_upd_neq. apply H. now left.
Qed.

Lemma scatter_length idxs init :
  length (fold_left (fun out i => upd out (g i) (v i)) idxs init) = length init.
Proof. revert init; induction idxs as [|i idxs IH]; intros init; cbn; auto. now rewrite IH, upd_length. Qed.

Lemma scatter_spec idxs init :
  NoDup idxs ->
  (forall i i', In i idxs -> In i' idxs -> g i = g i' -> i = i') ->
  (forall i, In i idxs -> g i < length init) ->
  forall i, In i idxs ->
  nth (g i) (fold_left (fun out i => upd out (g i) (v i)) idxs init) d = v i.
Proof.
  revert init; induction idxs as [|k idxs IH]; intros init ND Inj Bd i Hi; [destruct Hi|].
  cbn [fold_left]. inversion ND as [|? ? Hk ND']; subst.
  destruct Hi as [->|Hi].
  - rewrite scatter_untouched.
    + apply nth_upd_eq. apply Bd. now left.
    + intros i' Hi' E. apply Hk. rewrite <- (Inj i' i); auto; [now right | now left].
  - apply IH; auto.
    + intros; apply Inj; auto; now right.
    + intros i' Hi'. rewrite upd_length. apply Bd. now right.
Qed.

End Scatter.

(* C09: failures are error values and flow unchanged through chained calls — proofs about the model's entry
   sequences.  Panic is a value of the model; "total" means the model never evaluates to Panic. *)
From ArrRs Require Import Index Index_proofs Lists_proofs Axis Axis_proofs Reshape_proofs Broadcast Split Sort Bits.

(* every `impl .. for Result<Array<T>, ArrayError>` is `self.clone()?.op(..)`: a monadic bind *)
Definition on_result {A B} (r : res A) (op : A -> res B) : res B := let* a := r in op a.

Theorem propagate {A B} (e : err) (op : A -> res B) : on_result (Err e) op = Err e.
Proof. reflexivity. Qed.

Theorem propagate_chain {A} (e : err) (ops : list (A -> res A)) :
  fold_left (fun r op => on_result r op) ops (Err e) = Err e.
Proof. induction ops as [|op t IH]; cbn; auto. Qed.

Theorem on_result_ok {A B} (a : A) (op : A -> res B) : on_result (Ok a) op = op a.
Proof. reflexivity. Qed.

(* has_error: the first error of a list of results decides *)
Theorem mapM_first_error {A B} (f : A -> res B) (l1 : list A) x (l2 : list A) e :
  (forall y, In y l1 -> exists v, f y = Ok v) -> f x = Err e -> mapM f (l1 ++ x :: l2) = Err e.
Proof.
  induction l1 as [|y t IH]; intros H E; cbn [app mapM].
  - now rewrite E.
  - destruct (H y (or_introl eq_refl)) as (v & ->). cbn [bind]. rewrite IH; auto. intros z Hz. apply H. now right.
Qed.

Theorem mapM_all_ok {A B} (f : A -> res B) (l : list A) :
  (forall y, In y l -> exists v, f y = Ok v) -> exists vs, mapM f l = Ok vs /\ length vs = length l.
Proof.
  induction l as [|y t IH]; intros H; cbn [mapM]; [exists []; auto|].
  destruct (H y (or_introl eq_refl)) as (v & ->). destruct IH as (vs & -> & L); [intros; apply H; now right|].
  cbn [bind]. exists (v :: vs). split; [reflexivity | cbn; lia].
Qed.

(* ---------- totality of the modelled entry sequences ---------- *)
Lemma bind_total {A B} (r : res A) (k : A -> res B) : r <> Panic -> (forall x, k x <> Panic) -> (let* x := r in k x) <> Panic.
Proof. destruct r; cbn; auto; congruence. Qed.

Lemma guard_total b e : guard b e <> Panic.
Proof. destruct b; discriminate. Qed.

Section Totality.
Context {T : Type} (d : T).

Lemma new_total' (es : list T) sh : new es sh <> Panic.
Proof. destruct (new_total es sh) as [-> | ->]; discriminate. Qed.

Theorem constructors_total (es : list T) sh nd (x : T) :
  new es sh <> Panic /\ create es sh nd <> Panic /\ single x <> Panic /\ flat_arr es <> Panic /\ @empty T <> Panic.
Proof.
  repeat split; try apply new_total'. unfold create. destruct (_ <? _); [|apply new_total'].
  apply bind_total; [apply new_total' | intros; apply new_total'].
Qed.

Theorem reshape_family_total (a : arr T) sh n axes saxes :
  reshape a sh <> Panic /\ ravel a <> Panic /\ atleast a n <> Panic /\ expand_dims a axes <> Panic /\
  squeeze a saxes <> Panic /\ resize d a sh <> Panic /\ cycle_take d a n <> Panic.
Proof.
  repeat split; try apply new_total'.
  - unfold atleast. destruct n as [|[|[|[|n]]]]; try discriminate.
    + destruct (_ <=? _); [discriminate|]. destruct (shape a); apply new_total'.
    + destruct (_ <=? _); [discriminate|]. destruct (shape a) as [|? [|? ?]]; apply new_total'.
  - unfold expand_dims. apply bind_total; [|intros; apply new_total'].
    generalize (sort_by Z.leb (map (fun z => normalize_axis_dim (ndim a) z (length axes)) axes)) (shape a).
    intros l. induction l as [|ax l IH]; intros s; cbn [expand_shape]; [discriminate|].
    destruct (_ <=? _)%Z; [apply IH | discriminate].
  - unfold squeeze. destruct saxes as [l|]; [|apply new_total'].
    apply bind_total; [apply guard_total|]. intros _. destruct (existsb _ _); [discriminate | apply new_total'].
  - unfold resize. apply bind_total; [apply new_total' | intros; apply new_total'].
Qed.

Theorem indexing_total sh c n i : index_at sh c <> Panic /\ index_to_coord n sh i <> Panic.
Proof.
  split.
  - destruct (index_at_total sh c) as [-> | ->]; discriminate.
  - unfold index_to_coord. destruct (_ <=? _); discriminate.
Qed.

(* axis operations on arrays of rank >= 1: an invalid axis is an error value, never a panic *)
Theorem axis_ops_total (a : arr T) axes s t ax st x y : ndim a <> 0 ->
  transpose d a axes <> Panic /\ moveaxis d a s t <> Panic /\ rollaxis d a ax st <> Panic /\ swapaxes d a x y <> Panic.
Proof.
  intros N.
  assert (forall p, transpose_perm d a p <> Panic) as TP.
  { intros p. unfold transpose_perm. destruct (Nat.eqb_spec (ndim a) 0); [contradiction | apply new_total']. }
  assert (forall axes, transpose d a axes <> Panic) as TT.
  { intros [l|]; cbn [transpose]; [|apply TP].
    repeat (apply bind_total; [apply guard_total | intros _]). apply TP. }
  repeat split; [apply TT | | |].
  - unfold moveaxis. unfold is_unique. repeat (apply bind_total; [apply guard_total | intros _]). first [apply TT | apply TP].
  - unfold rollaxis, axis_in_bounds. repeat (apply bind_total; [apply guard_total | intros _]). first [apply TT | apply TP].
  - unfold swapaxes, axis_in_bounds. repeat (apply bind_total; [apply guard_total | intros _]). first [apply TT | apply TP].
Qed.

End Totality.

(* option names: anything but the four kinds / two orders (after lower-casing for kinds) is a parameter error *)
Theorem parse_kind_total s : parse_kind s <> Panic /\ (forall k, parse_kind s = Ok k \/ parse_kind s = Err EParam -> True).
Proof. split; [|auto]. unfold parse_kind. repeat destruct (bytes_eqb _ _); discriminate. Qed.

Theorem parse_bit_order_cases s : parse_bit_order s = Ok Big \/ parse_bit_order s = Ok Little \/ parse_bit_order s = Err EParam.
Proof. unfold parse_bit_order. repeat destruct (list_eqb _ _ _); auto. Qed.

Theorem parse_kind_cases s : (exists k, parse_kind s = Ok k) \/ parse_kind s = Err EParam.
Proof. unfold parse_kind. repeat destruct (bytes_eqb _ _); eauto. Qed.

(* flat insert puts the new values exactly at the requested positions (C13): the result is, for every original
   position i in order, the values requested for i (in request order) followed by the original element i; values
   requested for the end position come last.  The code sorts the (position, value) requests with a stable sort and
   inserts them from the back. *)
From ArrRs Require Import Index Index_proofs Lists_proofs Axis Reshape_proofs Broadcast Broadcast_proofs Split Lift Reduce Sort Edit Edit_proofs.
From Coq Require Import Permutation Sorted.

Lemma filter_all_false {A} (f : A -> bool) l : (forall z, In z l -> f z = false) -> filter f l = [].
Proof. induction l as [|x t IH]; intros H; cbn; auto. rewrite (H x) by now left. apply IH. intros; apply H; now right. Qed.

Lemma flat_map_ext_in' {A B} (f g : A -> list B) l : (forall x, In x l -> f x = g x) -> flat_map f l = flat_map g l.
Proof. induction l as [|x t IH]; intros H; cbn; auto. rewrite (H x) by now left. f_equal. apply IH. intros; apply H; now right. Qed.

Section InsertSpec.
Context {T : Type} (d : T).

Definition group (i : nat) (pairs : list (nat * T)) : list T := map snd (filter (fun p => fst p =? i) pairs).

(* the specification *)
Definition insert_spec (l : list T) (pairs : list (nat * T)) : list T :=
  flat_map (fun i => group i pairs ++ (if i <? length l then [nth i l d] else [])) (seq 0 (S (length l))).

Definition asc (sp : list (nat * T)) : Prop := StronglySorted (fun p q => fst p <= fst q) sp.

Lemma group_cons i x sp : group i (x :: sp) = (if fst x =? i then [snd x] else []) ++ group i sp.
Proof. unfold group. cbn [filter]. destruct (fst x =? i); reflexivity. Qed.

Lemma group_none i sp : Forall (fun p => fst p <> i) sp -> group i sp = [].
Proof.
  intros F. unfold group. assert (filter (fun p : nat * T => fst p =? i) sp = []) as ->; [|reflexivity].
  apply filter_all_false. intros z Hz. apply Nat.eqb_neq. rewrite Forall_forall in F. now apply F.
Qed.

(* ---------- the stable insertion sort ---------- *)
Lemma insert_pair_spec x sp : asc sp ->
  asc (insert_pair x sp) /\ (forall i, group i (insert_pair x sp) = group i sp ++ (if fst x =? i then [snd x] else [])) /\
  (forall y, In y (insert_pair x sp) <-> y = x \/ In y sp).
Proof.
  induction sp as [|y t IH]; intros S; cbn [insert_pair].
  - split; [repeat constructor|]. split; [intros i; unfold group; cbn; destruct (fst x =? i); reflexivity|].
    intros z; cbn; intuition.
  - inversion S as [|? ? S' F]; subst. destruct (Nat.ltb_spec (fst x) (fst y)) as [L|L].
    + split; [|split].
      * constructor; [exact S|]. constructor; [lia|]. rewrite Forall_forall in *. intros z Hz. specialize (F z Hz). lia.
      * intros i. rewrite group_cons. destruct (Nat.eqb_spec (fst x) i) as [E|E]; [|now rewrite app_nil_r].
        rewrite (group_none i (y :: t)); [reflexivity|].
        constructor; [lia|]. rewrite Forall_forall in *. intros z Hz. specialize (F z Hz). lia.
      * intros z; cbn; intuition.
    + destruct (IH S') as (S1 & G1 & M1). split; [|split].
      * constructor; [exact S1|]. rewrite Forall_forall in *. intros z Hz. apply M1 in Hz as [->|Hz]; [lia | auto].
      * intros i. rewrite !group_cons, G1, app_assoc. reflexivity.
      * intros z. cbn [In]. rewrite M1. intuition.
Qed.

Lemma sort_pairs_spec pairs : asc (sort_pairs pairs) /\ (forall i, group i (sort_pairs pairs) = group i pairs) /\
  (forall y, In y (sort_pairs pairs) <-> In y pairs).
Proof.
  unfold sort_pairs.
  assert (forall acc, asc acc ->
            asc (fold_left (fun acc x => insert_pair x acc) pairs acc) /\
            (forall i, group i (fold_left (fun acc x => insert_pair x acc) pairs acc) = group i acc ++ group i pairs) /\
            (forall y, In y (fold_left (fun acc x => insert_pair x acc) pairs acc) <-> In y acc \/ In y pairs)) as G.
  { induction pairs as [|x t IH]; intros acc S; cbn [fold_left].
    - split; [exact S|]. split; [intros; unfold group; cbn; now rewrite app_nil_r | intros; cbn; intuition].
    - destruct (insert_pair_spec x acc S) as (S1 & G1 & M1). destruct (IH _ S1) as (S2 & G2 & M2).
      split; [exact S2|]. split.
      + intros i. rewrite G2, G1, <- app_assoc, group_cons. reflexivity.
      + intros y. rewrite M2, M1. cbn [In]. intuition. }
  destruct (G [] ltac:(constructor)) as (S1 & G1 & M1). split; [exact S1|]. split; [exact G1|].
  intros y. rewrite M1. cbn. intuition.
Qed.

(* ---------- inserting ascending requests from the back ---------- *)
Definition insert_back (l : list T) (sp : list (nat * T)) : res (list T) :=
  fold_left (fun (r : res (list T)) (p : nat * T) =>
               let* es := r in if fst p <=? length es then Ok (insert_nth es (fst p) (snd p)) else Panic)
            (rev sp) (Ok l).

Lemma insert_nth_0 {A} (l : list A) x : insert_nth l 0 x = x :: l.
Proof. destruct l; reflexivity. Qed.

Lemma insert_nth_app_l {A} (l1 l2 : list A) q x : q <= length l1 -> insert_nth (l1 ++ l2) q x = insert_nth l1 q x ++ l2.
Proof.
  revert q; induction l1 as [|h t IH]; intros q H.
  - destruct q; [cbn [app]; rewrite !insert_nth_0; reflexivity | cbn in H; lia].
  - destruct q as [|q]; [rewrite !insert_nth_0; reflexivity|]. cbn [app insert_nth]. f_equal. apply IH. cbn in H. lia.
Qed.

Lemma insert_back_app sp : forall l1 l2 r1,
  Forall (fun p => fst p <= length l1) sp -> insert_back l1 sp = Ok r1 -> insert_back (l1 ++ l2) sp = Ok (r1 ++ l2).
Proof.
  unfold insert_back. induction sp as [|p sp IH] using rev_ind; intros l1 l2 r1 F H; cbn [rev fold_left] in *.
  - now injection H as <-.
  - rewrite rev_app_distr in *. cbn [rev app fold_left bind] in *.
    apply Forall_app in F as [F1 F2]. inversion F2 as [|? ? Hp _]; subst.
    destruct (Nat.leb_spec (fst p) (length l1)); [|lia]. rewrite app_length.
    destruct (Nat.leb_spec (fst p) (length l1 + length l2)); [|lia].
    rewrite insert_nth_app_l by exact Hp. apply IH; [|exact H].
    rewrite insert_nth_length. eapply Forall_impl; [|exact F1]. cbn. intros; lia.
Qed.

Lemma concat_singletons {A} (l : list A) : concat (map (fun x => [x]) l) = l.
Proof. induction l as [|x t IH]; cbn; auto. now rewrite IH. Qed.

Lemma insert_spec_nil_pairs l : insert_spec l [] = l.
Proof.
  unfold insert_spec. rewrite seq_S, flat_map_app. cbn [Nat.add flat_map group filter map app]. rewrite Nat.ltb_irrefl, app_nil_r.
  transitivity (flat_map (fun i => [nth i l d]) (seq 0 (length l))).
  { apply flat_map_ext_in'. intros i Hi. apply in_seq in Hi. destruct (Nat.ltb_spec i (length l)); [reflexivity | lia]. }
  rewrite flat_map_concat_map, <- (map_map (fun i => nth i l d) (fun x => [x])), map_nth_seq. apply concat_singletons.
Qed.

Lemma seq_as_map k m : seq k m = map (fun j => k + j) (seq 0 m).
Proof.
  revert k; induction m as [|m IH]; intros k; cbn [seq map]; [reflexivity|]. rewrite Nat.add_0_r. f_equal.
  rewrite (IH (S k)), (IH 1), map_map. apply map_ext. intros; lia.
Qed.

(* the part of the specification beyond position k, when no request addresses it: the remaining elements *)
Lemma flat_map_map {A B C} (f : B -> list C) (g : A -> B) l : flat_map f (map g l) = flat_map (fun x => f (g x)) l.
Proof. induction l as [|x t IH]; cbn; auto. now rewrite IH. Qed.

Lemma spec_tail (l2 : list T) k sp : (forall i, k < i -> group i sp = []) ->
  flat_map (fun i => group i sp ++ (if i <? k + length l2 then [nth (i - k) l2 d] else [])) (seq (S k) (length l2))
  = tl l2.
Proof.
  intros G. destruct l2 as [|x t]; [reflexivity|]. cbn [length tl].
  rewrite (seq_as_map (S k)), flat_map_map, seq_S, flat_map_app. cbn [Nat.add flat_map].
  rewrite G by lia. destruct (Nat.ltb_spec (S (k + length t)) (k + S (length t))); [lia|]. cbn [app]. rewrite app_nil_r.
  transitivity (flat_map (fun j => [nth j t d]) (seq 0 (length t))).
  - apply flat_map_ext_in'. intros j Hj. apply in_seq in Hj. rewrite G by lia.
    destruct (Nat.ltb_spec (S (k + j)) (k + S (length t))); [|lia].
    replace (S (k + j) - k) with (S j) by lia. reflexivity.
  - rewrite flat_map_concat_map, <- (map_map (fun i => nth i t d) (fun y => [y])), map_nth_seq. apply concat_singletons.
Qed.

Lemma group_app i sp1 sp2 : group i (sp1 ++ sp2) = group i sp1 ++ group i sp2.
Proof. unfold group. now rewrite filter_app, map_app. Qed.

(* requests that address positions up to |l1| only do not touch what follows *)
Lemma insert_spec_app l1 l2 sp : (forall i, length l1 < i -> group i sp = []) ->
  insert_spec (l1 ++ l2) sp = insert_spec l1 sp ++ l2.
Proof.
  intros G. unfold insert_spec. rewrite app_length.
  replace (S (length l1 + length l2)) with (length l1 + S (length l2)) by lia.
  rewrite seq_app. rewrite (seq_S (length l1) 0). rewrite !flat_map_app. cbn [Nat.add].
  change (seq (length l1) (S (length l2))) with (length l1 :: seq (S (length l1)) (length l2)).
  cbn [flat_map]. rewrite Nat.ltb_irrefl, !app_nil_r, <- !app_assoc.
  f_equal.
  - apply flat_map_ext_in'. intros i Hi. apply in_seq in Hi.
    destruct (Nat.ltb_spec i (length l1 + length l2)); [|lia]. destruct (Nat.ltb_spec i (length l1)); [|lia].
    now rewrite app_nth1 by lia.
  - f_equal.
    transitivity ((if length l1 <? length l1 + length l2 then [nth (length l1) (l1 ++ l2) d] else []) ++ tl l2).
    + f_equal. rewrite <- (spec_tail l2 (length l1) sp G). apply flat_map_ext_in'. intros i Hi. apply in_seq in Hi.
      f_equal. destruct (i <? length l1 + length l2); [|reflexivity]. now rewrite app_nth2 by lia.
    + destruct l2 as [|x t]; cbn [length tl].
      * rewrite Nat.add_0_r, Nat.ltb_irrefl. reflexivity.
      * destruct (Nat.ltb_spec (length l1) (length l1 + S (length t))); [|lia].
        rewrite app_nth2, Nat.sub_diag by lia. reflexivity.
Qed.

(* a request for the end position, placed last, lands at the very end *)
Lemma group_single i p : group i [p] = if fst p =? i then [snd p] else [].
Proof. unfold group. cbn [filter]. destruct (fst p =? i); reflexivity. Qed.

Lemma insert_spec_snoc l sp p : fst p = length l -> insert_spec l (sp ++ [p]) = insert_spec l sp ++ [snd p].
Proof.
  intros E. unfold insert_spec. rewrite (seq_S (length l) 0), !flat_map_app. cbn [Nat.add flat_map].
  rewrite Nat.ltb_irrefl, !app_nil_r, group_app, group_single, E, Nat.eqb_refl.
  rewrite <- app_assoc. f_equal. apply flat_map_ext_in'. intros i Hi. apply in_seq in Hi.
  rewrite group_app, group_single, E. destruct (Nat.eqb_spec (length l) i); [lia|]. now rewrite app_nil_r.
Qed.

Lemma insert_nth_split {A} (l : list A) q x : q <= length l -> insert_nth l q x = firstn q l ++ x :: skipn q l.
Proof.
  revert q; induction l as [|h t IH]; intros [|q] H; cbn in *; try lia; auto. f_equal. apply IH. lia.
Qed.

Lemma asc_snoc sp p : asc (sp ++ [p]) -> asc sp /\ Forall (fun q => fst q <= fst p) sp.
Proof.
  induction sp as [|x t IH]; intros S; cbn [app] in S; [split; constructor|].
  inversion S as [|? ? S' F]; subst. destruct (IH S') as (S1 & F1). split.
  - constructor; [exact S1|]. apply Forall_app in F as [F _]. exact F.
  - constructor; [|exact F1]. apply Forall_app in F as [_ F]. now inversion F.
Qed.

(* THE CORE: inserting ascending requests from the back yields the specification *)
Theorem insert_back_spec sp : forall l, asc sp -> Forall (fun p => fst p <= length l) sp ->
  insert_back l sp = Ok (insert_spec l sp).
Proof.
  induction sp as [|p sp1 IH] using rev_ind; intros l S F.
  - rewrite insert_spec_nil_pairs. reflexivity.
  - destruct (asc_snoc _ _ S) as (S1 & F1). apply Forall_app in F as [Fa Fp]. inversion Fp as [|? ? Hp _]; subst.
    set (l1 := firstn (fst p) l). set (l2 := skipn (fst p) l).
    assert (length l1 = fst p) as L1 by (unfold l1; rewrite firstn_length; lia).
    assert (l = l1 ++ l2) as El by (unfold l1, l2; symmetry; apply firstn_skipn).
    assert (insert_back l (sp1 ++ [p]) = insert_back (l1 ++ snd p :: l2) sp1) as ->.
    { unfold insert_back. rewrite rev_app_distr. cbn [rev app fold_left bind].
      destruct (Nat.leb_spec (fst p) (length l)); [|lia]. now rewrite insert_nth_split by exact Hp. }
    assert (Forall (fun q => fst q <= length l1) sp1) as F1' by (rewrite L1; exact F1).
    rewrite (insert_back_app sp1 l1 (snd p :: l2) _ F1' (IH l1 S1 F1')). f_equal.
    rewrite El at 1. rewrite insert_spec_app.
    + rewrite insert_spec_snoc by (symmetry; exact L1). now rewrite <- app_assoc.
    + intros i Hi. rewrite group_app. rewrite (group_none i sp1), (group_none i [p]); auto.
      * constructor; [lia | constructor].
      * eapply Forall_impl; [|exact F1]. cbn. intros; lia.
Qed.

(* flat insert of an array: with P the (position, value) requests obtained by broadcasting the position list against
   the flattened values, the result is the flat array insert_spec (elems a) P *)
Theorem insert_flat_spec (a values : arr T) idx pr :
  existsb (fun i => len a <? i) idx = false -> 1 <= ndim a -> ndim values = 1 ->
  broadcast_h2 0 d (mk idx [length idx]) (mk (elems values) [len values]) = Ok pr ->
  let P := combine (elems (fst pr)) (elems (snd pr)) in
  Forall (fun p => fst p <= len a) P ->
  insert_flat d a idx values = Ok (mk (insert_spec (elems a) P) [length (insert_spec (elems a) P)]).
Proof.
  intros E Na Nv Hb P F. unfold insert_flat. rewrite E, Nv.
  destruct (Nat.leb_spec 1 (ndim a)); [|lia]. cbn [Nat.leb Nat.eqb andb guard bind].
  rewrite flat_arr_ok, ravel_ok. cbn [bind]. rewrite Hb. cbn [bind]. fold P.
  destruct (sort_pairs_spec P) as (S & G & M).
  change (fold_left _ (rev (sort_pairs P)) (Ok (elems a))) with (insert_back (elems a) (sort_pairs P)).
  rewrite insert_back_spec; [|exact S|].
  - cbn [bind]. rewrite flat_arr_ok.
    assert (insert_spec (elems a) (sort_pairs P) = insert_spec (elems a) P) as ->; [|reflexivity].
    unfold insert_spec. apply flat_map_ext_in'. intros i _. now rewrite G.
  - apply Forall_forall. intros p Hp. apply M in Hp. rewrite Forall_forall in F. apply (F p Hp).
Qed.

End InsertSpec.

(* C08 — axis-wise reductions and scans equal the 1-D operation on every lane.
   PROVED here: the 1-D bodies meet their definitions (running totals, bounding element, count); with no axis
   the operation acts on the flattened array; an axis outside the rank is an error value in either spelling; a
   negative axis denotes the same axis counted from the end; every result is well formed.
   NOT YET PROVED (checked on every run by the correspondence check, which extracts every lane with the model and
   compares with the implementation's own 1-D call): the generic lane theorem
     C08_along : apply_along_axis a ax g = Ok r -> get r c = nth (nth ax c) (g (lane a ax (remove ax c)))
   — so this file's claim about lanes is the *_partial one below (shape only). *)
From ArrRs Require Import Index Axis Axis_proofs Split Lift Reduce Reduce_proofs.

Theorem C08_cumsum_lane : forall l k, k < length l -> nth k (z_cumsum1 l) 0%Z = z_sum1 (firstn (S k) l).
Proof. exact z_cumsum1_spec. Qed.

Theorem C08_cumprod_lane : forall l k, k < length l -> nth k (z_cumprod1 l) 0%Z = z_prod1 (firstn (S k) l).
Proof. exact z_cumprod1_spec. Qed.

Theorem C08_max_lane : forall l m, z_max1 l = Ok m -> In m l /\ forall y, In y l -> (y <= m)%Z.
Proof. exact z_max1_spec. Qed.

Theorem C08_count_lane : forall l n, z_count_nonzero1 l = Ok n -> n = length (filter (fun x => negb (x =? 0)%Z) l).
Proof. exact z_count_nonzero1_spec. Qed.

(* with no axis the operation acts on the flattened array *)
Theorem C08_none_reduce : forall (T : Type) (dt : T) (g1 : list T -> res T) (a : arr T) v,
  g1 (elems a) = Ok v -> reduce dt g1 a None = Ok (mk [v] [1]).
Proof. exact @reduce_none. Qed.

Theorem C08_none_scan : forall (T : Type) (dt : T) (g : list T -> list T) (a : arr T),
  length (g (elems a)) = len a -> scan dt g a None = Ok (mk (g (elems a)) [len a]).
Proof. exact @scan_none. Qed.

(* a negative axis denotes the same axis counted from the end *)
Theorem C08_negative_axis_reduce : forall (T : Type) (dt : T) (g1 : list T -> res T) (a : arr T) z,
  (Z.of_nat (ndim a) < two64)%Z -> (- Z.of_nat (ndim a) <= z < 0)%Z ->
  reduce dt g1 a (Some z) = reduce dt g1 a (Some (z + Z.of_nat (ndim a))%Z).
Proof. exact @reduce_negative. Qed.

Theorem C08_negative_axis_scan : forall (T : Type) (dt : T) (g : list T -> list T) (a : arr T) z,
  (Z.of_nat (ndim a) < two64)%Z -> (- Z.of_nat (ndim a) <= z < 0)%Z ->
  scan dt g a (Some z) = scan dt g a (Some (z + Z.of_nat (ndim a))%Z).
Proof. exact @scan_negative. Qed.

(* an axis outside the rank is an error value *)
Theorem C08_axis_out_of_range : forall (T : Type) (dt : T) (g1 : list T -> res T) (g : list T -> list T) (a : arr T) z,
  (Z.of_nat (ndim a) < 9223372036854775808)%Z -> isize_ok z -> ~ axis_ok (ndim a) z ->
  reduce dt g1 a (Some z) = Err EAxis /\ scan dt g a (Some z) = Err EAxis.
Proof. intros. split; [now apply reduce_axis_err | now apply scan_axis_err]. Qed.

(* every array returned by the lane machinery is well formed *)
Theorem C08_along_wf_partial : forall (T U : Type) (dt : T) (du : U) (a : arr T) axis f r,
  apply_along_axis dt du a axis f = Ok r -> wf r.
Proof. exact @apply_along_axis_wf. Qed.

Example C08_nonvacuous :
  reduce 0%Z (fun l => Ok (z_sum1 l)) (mk (map Z.of_nat (seq 0 24)) [2;3;2;2]) (Some 1%Z)
    = Ok (mk [12;15;18;21;48;51;54;57]%Z [2;2;2]) /\
  scan 0%Z z_cumsum1 (mk [1;2;3;4;5;6]%Z [2;3]) (Some (-1)%Z) = Ok (mk [1;3;6;4;9;15]%Z [2;3]).
Proof. split; vm_compute; reflexivity. Qed.

(* C08 — axis-wise reductions and scans equal the 1-D operation on every lane.
   PROVED here, for every well-formed array with positive extents, every rank, every axis in either spelling:
   - C08_along: the generic lane theorem for apply_along_axis — the result has the input's shape with the lane
     result's length at the axis, and its element at coordinate c is element c[axis] of the lane function applied to
     exactly the lane of the input at the remaining coordinates of c (move-to-last transpose, split into lanes,
     re-assembly and the move back are all inside the theorem);
   - C08_along_lanes: the same statement with the hypothesis restricted to the lanes the array actually has (a body such
     as `unique` answers with one common length only on the lanes at hand); C08_along_ragged: when two lanes give
     results of different lengths nothing is returned (ShapeMustMatchValuesLength) — the repair F29: the pinned code
     re-assembled such results misaligned whenever their total happened to fit;
   - C08_scan_axis / C08_reduce_axis / C08_index_reduce_axis: its instances for scans (cumsum, cumprod and their nan-skipping forms),
     reductions (sum, prod, max, min and their nan-skipping forms) and counting / searching (count_nonzero, argmax, argmin);
   - the 1-D bodies meet their definitions (running totals, bounding element, count); with no axis the operation
     acts on the flattened array; an axis outside the rank is an error value in either spelling; a negative axis
     denotes the same axis counted from the end; every result is well formed.
   MODELLED, NOT PROVED: floating-point lane bodies (the correspondence check compares them through the
   implementation's own 1-D call on the lane the model extracts); diff/ediff1d/gradient-style operations that do not go
   through apply_along_axis are covered by the correspondence check only. *)
From ArrRs Require Import Index Axis Axis_proofs Broadcast_proofs Split Lift Reduce Reduce_proofs Along_proofs Along_general.

Theorem C08_cumsum_lane : forall l k, k < length l -> nth k (z_cumsum1 l) 0%Z = z_sum1 (firstn (S k) l).
Proof. exact z_cumsum1_spec. Qed.

Theorem C08_cumprod_lane : forall l k, k < length l -> nth k (z_cumprod1 l) 0%Z = z_prod1 (firstn (S k) l).
Proof. exact z_cumprod1_spec. Qed.

Theorem C08_max_lane : forall l m, z_max1 l = Ok m -> In m l /\ forall y, In y l -> (y <= m)%Z.
Proof. exact z_max1_spec. Qed.

Theorem C08_count_lane : forall l n, z_count_nonzero1 l = Ok n -> n = length (filter (fun x => negb (x =? 0)%Z) l).
Proof. exact z_count_nonzero1_spec. Qed.

(* with no axis the operation acts on the flattened array *)
Theorem C08_none_reduce : forall (T : Type) (dt : T) (g1 : list T -> res T) (a : arr T) v,
  g1 (elems a) = Ok v -> reduce dt g1 a None = Ok (mk [v] [1]).
Proof. exact @reduce_none. Qed.

Theorem C08_none_scan : forall (T : Type) (dt : T) (g : list T -> list T) (a : arr T),
  length (g (elems a)) = len a -> scan dt g a None = Ok (mk (g (elems a)) [len a]).
Proof. exact @scan_none. Qed.

(* a negative axis denotes the same axis counted from the end *)
Theorem C08_negative_axis_reduce : forall (T : Type) (dt : T) (g1 : list T -> res T) (a : arr T) z,
  (Z.of_nat (ndim a) < two64)%Z -> (- Z.of_nat (ndim a) <= z < 0)%Z ->
  reduce dt g1 a (Some z) = reduce dt g1 a (Some (z + Z.of_nat (ndim a))%Z).
Proof. exact @reduce_negative. Qed.

Theorem C08_negative_axis_scan : forall (T : Type) (dt : T) (g : list T -> list T) (a : arr T) z,
  (Z.of_nat (ndim a) < two64)%Z -> (- Z.of_nat (ndim a) <= z < 0)%Z ->
  scan dt g a (Some z) = scan dt g a (Some (z + Z.of_nat (ndim a))%Z).
Proof. exact @scan_negative. Qed.

(* an axis outside the rank is an error value *)
Theorem C08_axis_out_of_range : forall (T : Type) (dt : T) (g1 : list T -> res T) (g : list T -> list T) (a : arr T) z,
  (Z.of_nat (ndim a) < 9223372036854775808)%Z -> isize_ok z -> ~ axis_ok (ndim a) z ->
  reduce dt g1 a (Some z) = Err EAxis /\ scan dt g a (Some z) = Err EAxis.
Proof. intros. split; [now apply reduce_axis_err | now apply scan_axis_err]. Qed.

(* THE LANE THEOREM *)
Theorem C08_along : forall (T U : Type) (dt : T) (du : U) (a : arr T) ax (f : arr T -> res (arr U)) (fr : arr T -> arr U) m,
  wf a -> pos_shape (shape a) -> ax < ndim a -> (Z.of_nat (ndim a) < two64)%Z ->
  (forall ln, wf ln -> shape ln = [nth ax (shape a) 0] -> f ln = Ok (fr ln) /\ len (fr ln) = m) ->
  exists R, apply_along_axis dt du a ax f = Ok R /\ wf R /\ shape R = upd (shape a) ax m /\
    forall c, in_range (shape R) c ->
      get du R c = nth (nth ax c 0) (elems (fr (lane dt a ax (remove_nth c ax)))) du.
Proof. exact @apply_along_axis_spec. Qed.

(* what a lane is: the elements a[rest with k inserted at ax], k = 0 .. extent-1, in order *)
Theorem C08_lane_def : forall (T : Type) (dt : T) (a : arr T) ax rest,
  elems (lane dt a ax rest) = map (fun k => get dt a (insert_nth rest ax k)) (seq 0 (nth ax (shape a) 0)).
Proof. reflexivity. Qed.

Theorem C08_scan_axis : forall (T : Type) (dt : T) (g : list T -> list T) (a : arr T) z,
  wf a -> pos_shape (shape a) -> (Z.of_nat (ndim a) < two64)%Z -> axis_ok (ndim a) z ->
  (forall l, length (g l) = length l) ->
  let ax := norm_nat (ndim a) z in
  exists R, scan dt g a (Some z) = Ok R /\ wf R /\ shape R = shape a /\
    forall c, in_range (shape a) c ->
      get dt R c = nth (nth ax c 0) (g (elems (lane dt a ax (remove_nth c ax)))) dt.
Proof. exact @scan_axis_spec. Qed.

Theorem C08_reduce_axis : forall (T : Type) (dt : T) (g1 : list T -> res T) (h : list T -> T) (a : arr T) z,
  wf a -> pos_shape (shape a) -> (Z.of_nat (ndim a) < two64)%Z -> axis_ok (ndim a) z ->
  let ax := norm_nat (ndim a) z in
  (forall l, length l = nth ax (shape a) 0 -> g1 l = Ok (h l)) ->
  exists R, reduce dt g1 a (Some z) = Ok R /\ wf R /\
    (1 < ndim a -> shape R = remove_nth (shape a) ax /\
        forall rest, in_range (shape R) rest -> get dt R rest = h (elems (lane dt a ax rest))) /\
    (ndim a = 1 -> R = mk [h (elems a)] [1]).
Proof. exact @reduce_axis_spec. Qed.

Theorem C08_index_reduce_axis : forall (T U : Type) (dt : T) (du : U) (g1 : list T -> res U) (h : list T -> U) (a : arr T) z keepdims,
  wf a -> pos_shape (shape a) -> (Z.of_nat (ndim a) < two64)%Z -> axis_ok (ndim a) z ->
  let ax := norm_nat (ndim a) z in
  (forall l, length l = nth ax (shape a) 0 -> g1 l = Ok (h l)) ->
  exists R, index_reduce dt du g1 a (Some z) keepdims = Ok R /\ wf R /\
    shape R = (if keepdims then upd (shape a) ax 1 else remove_nth (shape a) ax) /\
    forall rest, in_range (remove_nth (shape a) ax) rest ->
      get du R (if keepdims then insert_nth rest ax 0 else rest) = h (elems (lane dt a ax rest)).
Proof. exact @index_reduce_axis_spec. Qed.

(* every array returned by the lane machinery is well formed, whatever the lane function returns *)
Theorem C08_along_wf : forall (T U : Type) (dt : T) (du : U) (a : arr T) axis f r,
  apply_along_axis dt du a axis f = Ok r -> wf r.
Proof. exact @apply_along_axis_wf. Qed.

Example C08_nonvacuous :
  reduce 0%Z (fun l => Ok (z_sum1 l)) (mk (map Z.of_nat (seq 0 24)) [2;3;2;2]) (Some 1%Z)
    = Ok (mk [12;15;18;21;48;51;54;57]%Z [2;2;2]) /\
  scan 0%Z z_cumsum1 (mk [1;2;3;4;5;6]%Z [2;3]) (Some (-1)%Z) = Ok (mk [1;3;6;4;9;15]%Z [2;3]).
Proof. split; vm_compute; reflexivity. Qed.

(* the hypotheses of the lane theorems are met by a concrete rank-4 array and a middle axis *)
Example C08_lane_nonvacuous :
  let a := mk (map Z.of_nat (seq 0 24)) [2;3;2;2] in
  wf a /\ pos_shape (shape a) /\ axis_ok (ndim a) (-3)%Z /\ norm_nat (ndim a) (-3)%Z = 1 /\
  elems (lane 0%Z a 1 [1;0;1]) = [13; 17; 21]%Z.
Proof. cbn zeta. repeat split; try (vm_compute; reflexivity); try (unfold axis_ok; cbn; lia). repeat constructor. Qed.

Theorem C08_along_lanes : forall (T U : Type) (dt : T) (du : U) (a : arr T) ax (f : arr T -> res (arr U)) (fr : arr T -> arr U) m,
  wf a -> pos_shape (shape a) -> ax < ndim a -> (Z.of_nat (ndim a) < two64)%Z ->
  (forall rest, in_range (remove_nth (shape a) ax) rest ->
     f (lane dt a ax rest) = Ok (fr (lane dt a ax rest)) /\ len (fr (lane dt a ax rest)) = m) ->
  exists R, apply_along_axis dt du a ax f = Ok R /\ wf R /\ shape R = upd (shape a) ax m /\
    forall c, in_range (shape R) c ->
      get du R c = nth (nth ax c 0) (elems (fr (lane dt a ax (remove_nth c ax)))) du.
Proof. exact @apply_along_axis_lanes. Qed.

Theorem C08_along_ragged : forall (T U : Type) (dt : T) (du : U) (a : arr T) ax (f : arr T -> res (arr U)) (fr : arr T -> arr U) r1 r2,
  wf a -> pos_shape (shape a) -> ax < ndim a -> (Z.of_nat (ndim a) < two64)%Z ->
  (forall rest, in_range (remove_nth (shape a) ax) rest -> f (lane dt a ax rest) = Ok (fr (lane dt a ax rest))) ->
  in_range (remove_nth (shape a) ax) r1 -> in_range (remove_nth (shape a) ax) r2 ->
  len (fr (lane dt a ax r1)) <> len (fr (lane dt a ax r2)) ->
  apply_along_axis dt du a ax f = Err EShapeLen.
Proof. exact @apply_along_axis_ragged. Qed.

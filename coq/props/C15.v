(* C15 — solve, QR, determinant and norm satisfy their defining equations.   (PARTIAL)
   The model runs the code's algorithms over exact rationals Q: LU with partial pivoting (right-hand side permuted
   and the several-column substitution as repaired), forward / back substitution, cofactor determinant.
   PROVED: the 2 x 2 determinant closed form; the determinant of larger matrices is the expansion along the first
   column with alternating signs; a matrix with |det| < 1e-12 is refused with the singular-matrix error; on a
   pivoting example with a two-column right-hand side the model's solution satisfies A x = b exactly.
   NOT PROVED (the large open proof): A x = b for every invertible A (the P A = L U invariant).  Instead, on every
   case of the run the extracted model evaluates A x = b EXACTLY over Q for its own solution (must hold) and the
   implementation's f64 solution is compared with it within 2^-30 and its residual is bounded; QR (Q R = A, Q^T Q = I,
   R upper), norm definitions and the determinant laws are checked on the implementation's outputs in exact / bounded
   arithmetic.  Nothing is proved about floating-point rounding. *)
From Coq Require Import QArith.
Local Close Scope Q_scope.
From ArrRs Require Import Index Axis Linsolve Linsolve_proofs.

Theorem C15_det_2 : forall a b c d, (det [[a; b]; [c; d]] == a * d - b * c)%Q.
Proof. exact det_2. Qed.

Theorem C15_det_expand : forall (m : qmat), 3 <= length m ->
  det m = fold_left qadd (map (fun i => qmul (qmul (qget m i 0) (if Nat.even i then 1 else -1)%Q) (det_f (length m - 1) (minor m i 0)))
                               (seq 0 (length m))) 0%Q.
Proof. exact det_expand. Qed.

Theorem C15_singular : forall a b, qabs_ltb (det a) (1 # 1000000000000) = true -> solve a b = Err ESingular.
Proof. exact solve_singular. Qed.

Theorem C15_solve_residual_example_partial :
  match solve [[2;1;1];[4;3;3];[8;7;9]]%Q [[1;0];[2;1];[3;5]]%Q with
  | Ok x => residual_ok [[2;1;1];[4;3;3];[8;7;9]]%Q x [[1;0];[2;1];[3;5]]%Q = true
  | _ => False end.
Proof. exact solve_example. Qed.

(* C15 — solve, QR, determinant and norm satisfy their defining equations.
   The model runs the code's algorithms over exact rationals Q: LU with partial pivoting (right-hand side permuted
   and the several-column substitution as repaired), forward / back substitution, cofactor determinant.
   PROVED: C15_solve — for every size n >= 1, every n x n matrix a and every right-hand side b with n rows of k entries:
   when solve answers and no pivot of the elimination is zero, the returned matrix x has the shape of b and satisfies
   sum_c a[i][c] * x[c][j] == b[i][j] for every entry, exactly.  The proof carries the invariant  P A = L U  through the
   code's own steps (pivot search, the exchange of the rows of U, of the computed part of L and of the row order, the
   elimination below the pivot), then the forward and back substitutions as the code performs them (Lu_step.v,
   Lu_solve.v); C15_solve_residual: the executable residual test is therefore true; C15_pivot_test: the hypothesis is
   the Boolean pivots_okb, which the correspondence run evaluates on every case (it held on every answered case).
   C15_det_upper — the determinant of an upper-triangular matrix of any size >= 2 is the product of its diagonal (the
   value elimination yields), by the code's own expansion along the first column.
   Also: the 2 x 2 determinant closed form; the determinant of larger matrices is the expansion along the first
   column with alternating signs; a matrix with |det| < 1e-12 is refused with the singular-matrix error.
   C15_det_row_swap — exchanging two rows of a matrix of any size >= 2 changes the sign of the determinant the code
   computes (the expansion along the first column is alternating: proved for neighbouring rows by induction over the
   recursion, then for any two rows; Det_fun.v).
   C15_det_elimination — the determinant equals the value obtained by elimination: det a = s * (product of the
   diagonal of the U the code's LU loop leaves), s = +1 / -1 per row exchange the loop performed.  The proof follows
   the code's pivot search (largest magnitude in the column), row exchange and row updates column by column, with no
   assumption on the pivots (a zero pivot means the rest of the column is zero), using: the expansion is linear in
   every row, vanishes on two equal rows, and is unchanged by adding a multiple of one row to another.
   C15_det_nonzero_pivots / C15_pivots_nonzero_det — det a is non-zero exactly when no pivot is zero; hence
   C15_solve_exact / C15_solve_exact_residual — WHENEVER solve answers (the code's test |det a| >= 1e-12 passed), the
   returned matrix satisfies A X = B exactly, for every size n >= 2 and every right-hand side: the pivot hypothesis
   of C15_solve is discharged.
   C15_det_mul — the determinant is multiplicative: det (a b) = det a * det b for square matrices of any size >= 2.
   Every function of a matrix that respects entrywise equality, changes sign under a row exchange, is unchanged by
   adding a multiple of one row to another and scales with a row is carried through the code's elimination like the
   determinant, and on an upper-triangular matrix equals (product of the diagonal) * (its value on the identity) —
   or 0 when a diagonal entry is zero; applied to det and to A |-> det (A b) (Det_mult.v).
   NOT PROVED: nothing about
   floating-point rounding: the implementation's f64 solution is compared with the exact one within 2^-30 and its
   residual is bounded on every case; QR (Q R = A, Q^T Q = I, R upper) and the norm definitions are checked on the
   implementation's outputs in exact / bounded arithmetic. *)
From Coq Require Import QArith.
Local Close Scope Q_scope.
From ArrRs Require Import Index Axis Linsolve Linsolve_proofs Lu_sums Lu_step Lu_solve Det_tri Det_fun Det_elim Det_mult.

Theorem C15_det_2 : forall a b c d, (det [[a; b]; [c; d]] == a * d - b * c)%Q.
Proof. exact det_2. Qed.

Theorem C15_det_expand : forall (m : qmat), 3 <= length m ->
  det m = fold_left qadd (map (fun i => qmul (qmul (qget m i 0) (if Nat.even i then 1 else -1)%Q) (det_f (length m - 1) (minor m i 0)))
                               (seq 0 (length m))) 0%Q.
Proof. exact det_expand. Qed.

Theorem C15_det_upper : forall n (m : qmat), 2 <= n ->
  (length m = n /\ forall i, i < n -> length (nth i m []) = n) ->
  (forall i j, j < i -> i < n -> (qget m i j == 0)%Q) ->
  (det m == fold_left Qmult (map (fun i => qget m i i) (seq 0 n)) 1%Q)%Q.
Proof. intros n m N Sq U. apply (det_upper n m N). split; assumption. Qed.

Theorem C15_singular : forall a b, qabs_ltb (det a) (1 # 1000000000000) = true -> solve a b = Err ESingular.
Proof. exact solve_singular. Qed.

Theorem C15_solve_residual_example_partial :
  match solve [[2;1;1];[4;3;3];[8;7;9]]%Q [[1;0];[2;1];[3;5]]%Q with
  | Ok x => residual_ok [[2;1;1];[4;3;3];[8;7;9]]%Q x [[1;0];[2;1];[3;5]]%Q = true
  | _ => False end.
Proof. exact solve_example. Qed.

(* SOLVE: A X = B exactly, every size, every right-hand side *)
Theorem C15_solve : forall a b x n k,
  dims n a -> 0 < n -> length b = n -> (forall r, r < n -> length (nth r b []) = k) ->
  pivots_ok a -> solve a b = Ok x ->
  (length x = n /\ forall r, r < n -> length (nth r x []) = k) /\
  forall i j, i < n -> j < k -> (qsum (fun c => qget a i c * qget x c j) n == qget b i j)%Q.
Proof. exact solve_correct. Qed.

Theorem C15_solve_residual : forall a b x n k,
  dims n a -> 0 < n -> length b = n -> (forall r, r < n -> length (nth r b []) = k) ->
  pivots_ok a -> solve a b = Ok x -> residual_ok a x b = true.
Proof. exact solve_residual. Qed.

Theorem C15_pivot_test : forall a, pivots_okb a = true -> pivots_ok a.
Proof. exact pivots_okb_ok. Qed.

(* the invariant of the elimination: after all columns  P A = L U  with U upper triangular *)
Theorem C15_lu_invariant : forall a n, dims n a -> pivots_ok a -> forall k, k <= n ->
  Inv a n k (stL (lu_state a k)) (stU (lu_state a k)) (stO (lu_state a k)).
Proof. exact lu_state_inv. Qed.

(* a row exchange changes the sign of the determinant *)
Theorem C15_det_row_swap : forall n (m : qmat) p j, 2 <= n -> dims n m -> p < n -> j < n -> p <> j ->
  (det (swap_rows [] m p j) == - det m)%Q.
Proof. exact det_row_swap. Qed.

(* the determinant is the value obtained by elimination: sign of the row exchanges times the product of the pivots *)
Theorem C15_det_elimination : forall a n, 2 <= n -> dims n a ->
  (det a == lu_sign a n * fold_left Qmult (map (fun i => qget (stU (lu a)) i i) (seq 0 n)) 1)%Q.
Proof. exact det_elimination. Qed.

Theorem C15_det_nonzero_pivots : forall a n, 2 <= n -> dims n a -> ~ (det a == 0)%Q -> pivots_ok a.
Proof. exact det_nonzero_pivots. Qed.

Theorem C15_pivots_nonzero_det : forall a n, 2 <= n -> dims n a -> pivots_ok a -> ~ (det a == 0)%Q.
Proof. exact pivots_nonzero_det. Qed.

(* the determinant is multiplicative *)
Theorem C15_det_mul : forall n (a b : qmat), 2 <= n -> dims n a -> dims n b ->
  (det (map (fun r => map (fun c => qsum (fun k => qget a r k * qget b k c) n) (seq 0 n)) (seq 0 n)) == det a * det b)%Q.
Proof. exact det_mul. Qed.

Example C15_det_mul_example :
  let a := [[2;1;1];[4;3;3];[8;7;9]]%Q in let b := [[0;1;2];[1;0;3];[4;-3;8]]%Q in
  (det (qmat_mul 3 a b) == det a * det b)%Q /\ ~ (det (qmat_mul 3 a b) == 0)%Q.
Proof. exact det_mul_example. Qed.

(* SOLVE with no hypothesis on the pivots: whenever solve answers, A X = B exactly *)
Theorem C15_solve_exact : forall a b x n k,
  2 <= n -> dims n a -> length b = n -> (forall r, r < n -> length (nth r b []) = k) ->
  solve a b = Ok x ->
  (length x = n /\ forall r, r < n -> length (nth r x []) = k) /\
  forall i j, i < n -> j < k -> (qsum (fun c => qget a i c * qget x c j) n == qget b i j)%Q.
Proof. exact solve_exact. Qed.

Theorem C15_solve_exact_residual : forall a b x n k,
  2 <= n -> dims n a -> length b = n -> (forall r, r < n -> length (nth r b []) = k) ->
  solve a b = Ok x -> residual_ok a x b = true.
Proof. exact solve_exact_residual. Qed.

Example C15_det_elimination_example :
  let a := [[2;1;1];[4;3;3];[8;7;9]]%Q in
  (det a == 4)%Q /\ (lu_sign a 3 == 1)%Q /\ (fold_left Qmult (map (fun i => qget (stU (lu a)) i i) (seq 0 3)) 1 == 4)%Q.
Proof. exact det_elimination_example. Qed.

Example C15_solve_applies :
  let a := [[2;1;1];[4;3;3];[8;7;9]]%Q in let b := [[1;0];[2;1];[3;5]]%Q in
  dims 3 a /\ pivots_ok a /\ exists x, solve a b = Ok x.
Proof. exact solve_correct_applies. Qed.

(* C07 — reshaping operations never reorder, drop or invent elements. *)
From Coq Require Import Sorted.
From ArrRs Require Import Index Axis Axis_proofs Reshape_proofs.

(* each operation of the family returns the same flat element list (and a well-formed array) *)
Theorem C07_same_elems : forall (T : Type) (a r : arr T) (o : rop),
  run_rop a o = Ok r -> elems r = elems a /\ (wf a -> wf r).
Proof. intros T a r o. exact (run_rop_ok a o r). Qed.

Theorem C07_create_same_elems : forall (T : Type) (es : list T) sh nd a,
  create es sh nd = Ok a -> elems a = es /\ wf a.
Proof. exact @create_ok. Qed.

(* any sequence of reshape / ravel / atleast / expand_dims / squeeze keeps the flat element list … *)
Theorem C07_chain_elems : forall (T : Type) (a r : arr T) (ops : list rop),
  run_chain a ops = Ok r -> elems r = elems a /\ (wf a -> wf r).
Proof. intros T a r ops. exact (run_chain_elems a ops r). Qed.

(* … so a chain that ends in the original shape is the identity *)
Theorem C07_chain_identity : forall (T : Type) (a r : arr T) (ops : list rop),
  run_chain a ops = Ok r -> shape r = shape a -> r = a.
Proof. intros T a r ops. exact (run_chain_identity a ops r). Qed.

(* reshape succeeds exactly when the element count fits, and then only the shape changes *)
Theorem C07_reshape : forall (T : Type) (a : arr T) sh,
  (prod sh = len a -> reshape a sh = Ok (mk (elems a) sh)) /\
  (prod sh <> len a -> reshape a sh = Err EShapeLen).
Proof. intros. split; [apply reshape_iff | apply reshape_refuse]. Qed.

Theorem C07_ravel : forall (T : Type) (a : arr T), ravel a = Ok (mk (elems a) [len a]).
Proof. exact @ravel_ok. Qed.

(* inserting unit axes: for strictly increasing positions every requested position of the result holds 1 and
   deleting those positions gives back the input shape *)
Theorem C07_expand_positions : forall sh axs sh',
  expand_shape sh axs = Ok sh' -> Forall (fun ax => (0 <= ax)%Z) axs -> StronglySorted Z.lt axs ->
  Forall (fun ax => nth (Z.to_nat ax) sh' 0 = 1) axs /\
  fold_left (fun s ax => remove_nth s (Z.to_nat ax)) (rev axs) sh' = sh.
Proof. exact expand_shape_spec. Qed.

(* removing a named axis is allowed only when its length is one *)
Theorem C07_squeeze_named : forall (T : Type) (a : arr T) z,
  wf a -> (Z.of_nat (ndim a) < two64)%Z -> axis_ok (ndim a) z ->
  (nth (norm_nat (ndim a) z) (shape a) 0 = 1 ->
     squeeze a (Some [z]) = Ok (mk (elems a) (remove_nth (shape a) (norm_nat (ndim a) z)))) /\
  (nth (norm_nat (ndim a) z) (shape a) 0 <> 1 -> squeeze a (Some [z]) = Err ESqueeze).
Proof. exact @squeeze_single. Qed.

Theorem C07_squeeze_all : forall (T : Type) (a : arr T), wf a ->
  squeeze a None = Ok (mk (elems a) (filter (fun d => negb (d =? 1)) (shape a))).
Proof. exact @squeeze_none. Qed.

(* resizing to any shape fills it by cycling through the source elements in order *)
Theorem C07_resize : forall (T : Type) (d : T) (a : arr T) sh, len a <> 0 ->
  exists r, resize d a sh = Ok r /\ shape r = sh /\ wf r /\
    forall i, i < prod sh -> nth i (elems r) d = nth (i mod len a) (elems a) d.
Proof. exact @resize_spec. Qed.

(* non-vacuity: a chain through five different shapes of a rank-3 array that ends where it started *)
Example C07_nonvacuous :
  let a := mk (map Z.of_nat (seq 0 12)) [2;1;6] in
  run_chain a [RSqueeze (Some [1%Z]); RReshape [3;4]; RExpand [0%Z; (-1)%Z]; RRavel; RAtleast 3; RReshape [2;1;6]] = Ok a.
Proof. vm_compute. reflexivity. Qed.

(* C06 — axis permutations move each element to the permuted coordinate, nothing else.
   Vocabulary: (pick p c)[k] = c[p[k]];  inv_perm p is the inverse permutation;  get d a c is the element
   of a at coordinate c (row-major);  transpose_perm is the scatter loop of the code run with order p. *)
From ArrRs Require Import Index Axis Axis_proofs.

(* transposing with an order p that is a permutation of the axes: the shape is the input shape permuted and the
   element at any coordinate of the result is the input element at the coordinate obtained by undoing p *)
Theorem C06_transpose : forall (T : Type) (d : T) (a : arr T) (p : list nat),
  wf a -> ndim a <> 0 -> is_perm p (ndim a) ->
  exists r, transpose d a (Some (map Z.of_nat p)) = Ok r /\ wf r /\ shape r = pick p (shape a) /\
    (forall c, in_range (shape a) c -> get d r (pick p c) = get d a c) /\
    (forall c', in_range (shape r) c' -> get d r c' = get d a (pick (inv_perm p) c')).
Proof.
  intros T d a p W N P. rewrite (transpose_of_perm d a p P). exact (transpose_perm_ok d a p W N P).
Qed.

(* an explicit order (signed axis numbers) is accepted exactly when its normalisation is a permutation of the
   axes, and then it is that transpose; any other order is an error value: no panic, no array *)
Theorem C06_explicit_order : forall (T : Type) (d : T) (a : arr T) (l : list Z),
  (is_perm (order_of (ndim a) l) (ndim a) /\
     transpose d a (Some l) = transpose_perm d a (order_of (ndim a) l)) \/
  (~ is_perm (order_of (ndim a) l) (ndim a) /\ exists e, transpose d a (Some l) = Err e).
Proof. exact @transpose_some_cases. Qed.

(* the default transpose reverses the axes *)
Theorem C06_default : forall (T : Type) (d : T) (a : arr T),
  transpose d a None = transpose_perm d a (rev (seq 0 (ndim a))) /\ is_perm (rev (seq 0 (ndim a))) (ndim a).
Proof. intros. split; [apply transpose_none | apply rev_seq_is_perm]. Qed.

(* a permutation followed by its inverse restores the original array *)
Theorem C06_inverse : forall (T : Type) (d : T) (a : arr T) (p : list nat),
  wf a -> ndim a <> 0 -> is_perm p (ndim a) ->
  (let* r := transpose_perm d a p in transpose_perm d r (inv_perm p)) = Ok a.
Proof. exact @transpose_perm_inverse. Qed.

(* swapping two axes is transposing with the corresponding transposition, for either spelling of each axis;
   an axis outside the rank is an error *)
Theorem C06_swapaxes : forall (T : Type) (d : T) (a : arr T) (x y : Z),
  (Z.of_nat (ndim a) < two64)%Z -> axis_ok (ndim a) x -> axis_ok (ndim a) y ->
  swapaxes d a x y = transpose_perm d a (swap_list (seq 0 (ndim a)) (norm_nat (ndim a) x) (norm_nat (ndim a) y))
  /\ is_perm (swap_list (seq 0 (ndim a)) (norm_nat (ndim a) x) (norm_nat (ndim a) y)) (ndim a).
Proof. exact @swapaxes_ok. Qed.

Theorem C06_swapaxes_invalid : forall (T : Type) (d : T) (a : arr T) (x y : Z),
  (Z.of_nat (ndim a) < 9223372036854775808)%Z -> isize_ok x -> isize_ok y ->
  ~ (axis_ok (ndim a) x /\ axis_ok (ndim a) y) -> swapaxes d a x y = Err EAxis.
Proof. exact @swapaxes_err. Qed.

(* rolling an axis: transpose with the order in which the axis lands at index start and the other axes keep
   their relative order *)
Theorem C06_rollaxis : forall (T : Type) (d : T) (a : arr T) (x st : Z),
  (Z.of_nat (ndim a) < two64)%Z -> axis_ok (ndim a) x -> axis_ok (ndim a) st ->
  rollaxis d a x (Some st) = transpose_perm d a (rollaxis_order (ndim a) (norm_nat (ndim a) x) (norm_nat (ndim a) st))
  /\ is_perm (rollaxis_order (ndim a) (norm_nat (ndim a) x) (norm_nat (ndim a) st)) (ndim a).
Proof. exact @rollaxis_ok. Qed.

Theorem C06_rollaxis_order : forall n axis start, axis < n -> start < n ->
  nth start (rollaxis_order n axis start) 0 = axis /\
  remove_nth (rollaxis_order n axis start) start = remove_nth (seq 0 n) axis.
Proof. exact rollaxis_order_spec. Qed.

(* moving one axis to a destination is the same transpose *)
Theorem C06_moveaxis : forall (T : Type) (d : T) (a : arr T) (s t : Z),
  (Z.of_nat (ndim a) < two64)%Z -> axis_ok (ndim a) s -> axis_ok (ndim a) t ->
  moveaxis d a [s] [t] = transpose_perm d a (rollaxis_order (ndim a) (norm_nat (ndim a) s) (norm_nat (ndim a) t)).
Proof. exact @moveaxis_single_ok. Qed.

(* negative axis numbers count from the end *)
Theorem C06_negative_transpose : forall (T : Type) (d : T) (a : arr T) (l : list Z),
  (Z.of_nat (ndim a) < two64)%Z -> Forall (axis_ok (ndim a)) l ->
  transpose d a (Some l) =
  transpose d a (Some (map (fun z => if (z <? 0)%Z then (z + Z.of_nat (ndim a))%Z else z) l)).
Proof. exact @transpose_negative. Qed.

Theorem C06_negative_swapaxes : forall (T : Type) (d : T) (a : arr T) (x y : Z),
  (Z.of_nat (ndim a) < two64)%Z -> (- Z.of_nat (ndim a) <= x < 0)%Z ->
  swapaxes d a x y = swapaxes d a (x + Z.of_nat (ndim a)) y /\
  swapaxes d a y x = swapaxes d a y (x + Z.of_nat (ndim a)).
Proof. exact @swapaxes_negative. Qed.

Theorem C06_negative_rollaxis : forall (T : Type) (d : T) (a : arr T) (x : Z) (st : option Z),
  (Z.of_nat (ndim a) < two64)%Z -> (- Z.of_nat (ndim a) <= x < 0)%Z ->
  rollaxis d a x st = rollaxis d a (x + Z.of_nat (ndim a)) st.
Proof. exact @rollaxis_negative. Qed.

Theorem C06_negative_moveaxis : forall (T : Type) (d : T) (a : arr T) (s t : Z),
  (Z.of_nat (ndim a) < two64)%Z -> (- Z.of_nat (ndim a) <= s < 0)%Z ->
  moveaxis d a [s] [t] = moveaxis d a [s + Z.of_nat (ndim a)]%Z [t] /\
  moveaxis d a [t] [s] = moveaxis d a [t] [s + Z.of_nat (ndim a)]%Z.
Proof. exact @moveaxis_negative. Qed.

(* non-vacuity: rank 4, shape [2;3;2;2], the non-involutive order [1;2;3;0] *)
Example C06_nonvacuous :
  let a := mk (map Z.of_nat (seq 0 24)) [2;3;2;2] in
  wf a /\ is_perm [1;2;3;0] (ndim a) /\
  (exists r, transpose 0%Z a (Some [1;2;3;0]%Z) = Ok r /\ shape r = [3;2;2;2] /\
             get 0%Z r [2;1;0;1] = get 0%Z a [1;2;1;0]) /\
  inv_perm [1;2;3;0] = [3;0;1;2].
Proof.
  cbn zeta. split; [reflexivity|]. split.
  - apply is_permb_spec. reflexivity.
  - split; [|reflexivity]. eexists. split; [vm_compute; reflexivity|]. split; reflexivity.
Qed.

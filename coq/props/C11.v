(* C11 — joining lays inputs contiguously along the axis; splitting is its inverse.
   PROVED: the split sizes (count, sum, equal for an exact split, otherwise differing by one with the larger first);
   SPLITTING an array of rank >= 2 with positive extents along any axis (C11_array_split / C11_split_even): the
   blocks come out in order along the axis, block k has the input's shape with the k-th section size at the axis and
   holds at coordinate c the input element at c with the axis entry shifted by the sizes of the earlier blocks —
   nothing is lost, duplicated or reordered; an uneven `split` is refused; flat append chains the element lists;
   every joined array is well formed; the repository's hstack is sound with respect to the specified hstack (=
   concatenation along axis 1 of the inputs promoted to rank 2) and is refuted on inputs that differ only in the
   joined axis (open finding F11, pinned by the repository's own test).
   JOINING (rank >= 2, positive extents): C11_append_axis — appending along an axis gives the receiver's shape with the
   two axis lengths added, the receiver below its axis length and the appended array, shifted, beyond (the code's
   unit slices, flat re-assembly, reshape with exchanged extents and transpose are all inside the theorem);
   C11_concatenate_axis — any number of inputs are laid one after the other (`locate` walks the inputs subtracting
   their axis lengths); C11_split_concatenate — array_split into at most (axis length) parts followed by concatenate
   along the same axis returns the original array.
   NOT YET PROVED (checked by the correspondence run): stack / vstack / hstack / dstack / column_stack as coordinate
   statements (they are expand_dims / atleast promotions followed by concatenate), rank-1 joins along axis 0, and
   splits producing empty blocks (parts > axis length). *)
From ArrRs Require Import Index Axis Split Join Join_proofs Broadcast_proofs Axis_proofs Split_proofs Append_proofs.

Theorem C11_split_sizes : forall n parts, 0 < parts ->
  length (section_sizes n parts) = parts /\
  fold_right Nat.add 0 (section_sizes n parts) = n /\
  section_sizes n parts = repeat (n / parts + 1) (n mod parts) ++ repeat (n / parts) (parts - n mod parts) /\
  (n mod parts = 0 -> section_sizes n parts = repeat (n / parts) parts).
Proof. exact section_sizes_spec. Qed.

Theorem C11_append_flat : forall (T : Type) (dflt : T) (a v : arr T),
  append dflt a v None = Ok (mk (elems a ++ elems v) [length (elems a ++ elems v)]).
Proof. exact @append_flat. Qed.

Theorem C11_concatenate_wf_partial : forall (T : Type) (dflt : T) (arrs : list (arr T)) axis r,
  Forall wf arrs -> concatenate dflt arrs axis = Ok r -> wf r.
Proof. exact @concatenate_wf. Qed.

(* forall inputs outside the known class the repository's hstack is the specified one: whenever it answers with an
   array that array is the specified result … *)
Theorem C11_hstack_sound : forall (T : Type) (dflt : T) (arrs : list (arr T)) r,
  hstack_pinned dflt arrs = Ok r -> hstack_spec dflt arrs = Ok r.
Proof. exact @hstack_pinned_sound. Qed.

(* … and the known class is inhabited: the full statement (hstack = specified hstack) is refuted by this witness *)
Theorem C11_hstack_refuted :
  exists arrs : list (arr Z), hstack_pinned 0%Z arrs = Err EConcat /\
    hstack_spec 0%Z arrs = Ok (mk [0;1;5;2;3;6]%Z [2;3]).
Proof. exact hstack_pinned_refuted. Qed.

(* what the blocks of a split are *)
Theorem C11_pieces_def : forall (T : Type) (d : T) (a : arr T) ax start s t p ps,
  pieces_ok d a ax start (s :: t) (p :: ps) <->
  (wf p /\ shape p = upd (shape a) ax s /\
   (forall c, in_range (shape p) c -> get d p c = get d a (upd c ax (start + nth ax c 0)))) /\
  pieces_ok d a ax (start + s) t ps.
Proof. reflexivity. Qed.

Theorem C11_array_split : forall (T : Type) (d : T) (a : arr T) parts ax,
  wf a -> pos_shape (shape a) -> 2 <= ndim a -> ax < ndim a -> (Z.of_nat (ndim a) < two64)%Z -> 0 < parts ->
  exists ps, array_split d a parts (Some ax) = Ok ps /\
    pieces_ok d a ax 0 (section_sizes (nth ax (shape a) 0) parts) ps.
Proof. exact @array_split_spec. Qed.

Theorem C11_split_even : forall (T : Type) (d : T) (a : arr T) parts ax,
  wf a -> pos_shape (shape a) -> 2 <= ndim a -> ax < ndim a -> (Z.of_nat (ndim a) < two64)%Z -> 0 < parts ->
  nth ax (shape a) 0 mod parts = 0 ->
  exists ps, split_even d a parts (Some ax) = Ok ps /\
    pieces_ok d a ax 0 (repeat (nth ax (shape a) 0 / parts) parts) ps.
Proof. exact @split_even_spec. Qed.

Theorem C11_split_uneven_refused : forall (T : Type) (d : T) (a : arr T) parts ax,
  wf a -> pos_shape (shape a) -> ax < ndim a -> 0 < parts -> nth ax (shape a) 0 mod parts <> 0 ->
  split_even d a parts (Some ax) = Err EParam.
Proof. exact @split_even_refuses. Qed.

Theorem C11_append_axis : forall (T : Type) (d : T) (a v : arr T) ax,
  wf a -> wf v -> pos_shape (shape a) -> pos_shape (shape v) -> 2 <= ndim a -> ndim v = ndim a -> ax < ndim a ->
  (Z.of_nat (ndim a) < two64)%Z -> remove_nth (shape a) ax = remove_nth (shape v) ax ->
  let na := nth ax (shape a) 0 in
  exists R, append d a v (Some ax) = Ok R /\ wf R /\ shape R = upd (shape a) ax (na + nth ax (shape v) 0) /\
    forall c, in_range (shape R) c ->
      get d R c = if nth ax c 0 <? na then get d a c else get d v (upd c ax (nth ax c 0 - na)).
Proof. exact @append_axis_spec. Qed.

Theorem C11_locate_def : forall (T : Type) (d : T) ax (a : arr T) t c,
  locate d ax (a :: t) c = if nth ax c 0 <? nth ax (shape a) 0 then get d a c
                           else locate d ax t (upd c ax (nth ax c 0 - nth ax (shape a) 0)).
Proof. reflexivity. Qed.

Theorem C11_concatenate_axis : forall (T : Type) (d : T) ax rs n (first : arr T) rest,
  2 <= n -> ax < n -> (Z.of_nat n < two64)%Z -> Forall (joinable ax rs n) (first :: rest) ->
  exists R, concatenate d (first :: rest) (Some ax) = Ok R /\ wf R /\ remove_nth (shape R) ax = rs /\ ndim R = n /\
    nth ax (shape R) 0 = fold_left (fun s a => s + nth ax (shape a) 0) rest (nth ax (shape first) 0) /\
    forall c, in_range (shape R) c -> get d R c = locate d ax (first :: rest) c.
Proof. exact @concatenate_axis_spec. Qed.

Theorem C11_joinable_def : forall (T : Type) ax rs n (a : arr T),
  joinable ax rs n a <-> wf a /\ pos_shape (shape a) /\ ndim a = n /\ remove_nth (shape a) ax = rs.
Proof. reflexivity. Qed.

Theorem C11_split_concatenate : forall (T : Type) (d : T) (a : arr T) parts ax,
  wf a -> pos_shape (shape a) -> 2 <= ndim a -> ax < ndim a -> (Z.of_nat (ndim a) < two64)%Z ->
  0 < parts <= nth ax (shape a) 0 ->
  exists ps, array_split d a parts (Some ax) = Ok ps /\ length ps = parts /\ concatenate d ps (Some ax) = Ok a.
Proof. exact @array_split_concatenate. Qed.

Example C11_split_nonvacuous :
  array_split 0%Z (mk (map Z.of_nat (seq 0 12)) [2;3;2]) 2 (Some 1) =
    Ok [mk [0;1;2;3;6;7;8;9]%Z [2;2;2]; mk [4;5;10;11]%Z [2;1;2]].
Proof. vm_compute. reflexivity. Qed.

Example C11_nonvacuous :
  section_sizes 7 3 = [3;2;2] /\
  append 0%Z (mk [0;1;2;3;4;5]%Z [2;3]) (mk [10;11;12;13]%Z [2;2]) (Some 1) = Ok (mk [0;1;2;10;11;3;4;5;12;13]%Z [2;5]) /\
  array_split 0%Z (mk (map Z.of_nat (seq 0 10)) [5;2]) 3 (Some 0)
    = Ok [mk [0;1;2;3]%Z [2;2]; mk [4;5;6;7]%Z [2;2]; mk [8;9]%Z [1;2]].
Proof. repeat split; vm_compute; reflexivity. Qed.

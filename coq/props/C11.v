(* C11 — joining lays inputs contiguously along the axis; splitting is its inverse.
   PROVED: the split sizes (count, sum, equal for an exact split, otherwise differing by one with the larger first);
   SPLITTING an array of rank >= 2 with positive extents along any axis (C11_array_split / C11_split_even): the
   blocks come out in order along the axis, block k has the input's shape with the k-th section size at the axis and
   holds at coordinate c the input element at c with the axis entry shifted by the sizes of the earlier blocks —
   nothing is lost, duplicated or reordered; an uneven `split` is refused; flat append chains the element lists;
   every joined array is well formed; the repository's hstack is sound with respect to the specified hstack (=
   concatenation along axis 1 of the inputs promoted to rank 2) and is refuted on inputs that differ only in the
   joined axis (open finding F11, pinned by the repository's own test).
   JOINING (rank >= 2, positive extents): C11_append_axis — appending along an axis gives the receiver's shape with the
   two axis lengths added, the receiver below its axis length and the appended array, shifted, beyond (the code's
   unit slices, flat re-assembly, reshape with exchanged extents and transpose are all inside the theorem);
   C11_concatenate_axis — any number of inputs are laid one after the other (`locate` walks the inputs subtracting
   their axis lengths); C11_split_concatenate — array_split into at most (axis length) parts followed by concatenate
   along the same axis returns the original array.
   STACKING: C11_stack — n inputs of one shape s become the entries of a new axis inserted at any position ax <= rank:
   the result has shape s with n inserted at ax and holds at c the element of input c[ax] at c without that entry
   (expand_dims of every input and the concatenation are inside the theorem); C11_dstack_matrices — dstack of
   equally shaped matrices is that stack along a new last axis; C11_vstack_axis / C11_hstack_axis / C11_dstack_axis —
   on inputs that already have the required rank the three conveniences ARE the concatenation along axis 0 / 1 / 2;
   RANK-1 JOINS: C11_append_rank1 / C11_concatenate_rank1 / C11_hstack_rank1 chain the element lists;
   C11_vstack_rank1 — n vectors of one length l give the n x l matrix whose row k is input k; vectors of different
   lengths are refused (C11_vstack_rank1_ragged — repair F30: the pinned code chained them and cut rows of the first
   one's length whenever the total happened to fit).
   C11_column_stack — vectors of r elements and r-row matrices are laid side by side: the result is r x (sum of the
   column counts) and entry (i, j) is found by walking the inputs subtracting their column counts (col_locate).
   REFUSALS (C11_append_refuse_rank / _shape, C11_concatenate_refuse, C11_stack_refuse, C11_column_stack_refuse,
   C11_vstack_refuse / C11_hstack_refuse / C11_dstack_refuse, C11_vstack_rank1_ragged): operands of different rank, inputs that differ off the joined axis, inputs of different
   shapes for stack, different row counts for column_stack are answered with an error value, never joined.
   C11_dstack_vectors — n vectors of one length l give the 1 x l x n array whose entry (0, j, k) is element j of input k.
   C11_dstack_promote / C11_hstack_promote / C11_promoted_shape — inputs of rank 0 or of MIXED rank: hstack / dstack
   give what they give on the inputs raised to rank 2 / 3; every raised input has that rank, its elements unchanged,
   and the stated shape ([d] -> [1, d] resp. [1, d, 1]; [d0, d1] -> [d0, d1, 1]), so the theorems for inputs of
   sufficient rank apply to the raised list.
   NOT YET PROVED (checked by the correspondence run): splits producing empty blocks (parts > axis length). *)
From ArrRs Require Import Index Axis Split Join Join_proofs Broadcast_proofs Axis_proofs Split_proofs Append_proofs Stack_proofs Join_refuse Promote_proofs.

Theorem C11_split_sizes : forall n parts, 0 < parts ->
  length (section_sizes n parts) = parts /\
  fold_right Nat.add 0 (section_sizes n parts) = n /\
  section_sizes n parts = repeat (n / parts + 1) (n mod parts) ++ repeat (n / parts) (parts - n mod parts) /\
  (n mod parts = 0 -> section_sizes n parts = repeat (n / parts) parts).
Proof. exact section_sizes_spec. Qed.

Theorem C11_append_flat : forall (T : Type) (dflt : T) (a v : arr T),
  append dflt a v None = Ok (mk (elems a ++ elems v) [length (elems a ++ elems v)]).
Proof. exact @append_flat. Qed.

Theorem C11_concatenate_wf_partial : forall (T : Type) (dflt : T) (arrs : list (arr T)) axis r,
  Forall wf arrs -> concatenate dflt arrs axis = Ok r -> wf r.
Proof. exact @concatenate_wf. Qed.

(* forall inputs outside the known class the repository's hstack is the specified one: whenever it answers with an
   array that array is the specified result … *)
Theorem C11_hstack_sound : forall (T : Type) (dflt : T) (arrs : list (arr T)) r,
  hstack_pinned dflt arrs = Ok r -> hstack_spec dflt arrs = Ok r.
Proof. exact @hstack_pinned_sound. Qed.

(* … and the known class is inhabited: the full statement (hstack = specified hstack) is refuted by this witness *)
Theorem C11_hstack_refuted :
  exists arrs : list (arr Z), hstack_pinned 0%Z arrs = Err EConcat /\
    hstack_spec 0%Z arrs = Ok (mk [0;1;5;2;3;6]%Z [2;3]).
Proof. exact hstack_pinned_refuted. Qed.

(* what the blocks of a split are *)
Theorem C11_pieces_def : forall (T : Type) (d : T) (a : arr T) ax start s t p ps,
  pieces_ok d a ax start (s :: t) (p :: ps) <->
  (wf p /\ shape p = upd (shape a) ax s /\
   (forall c, in_range (shape p) c -> get d p c = get d a (upd c ax (start + nth ax c 0)))) /\
  pieces_ok d a ax (start + s) t ps.
Proof. reflexivity. Qed.

Theorem C11_array_split : forall (T : Type) (d : T) (a : arr T) parts ax,
  wf a -> pos_shape (shape a) -> 2 <= ndim a -> ax < ndim a -> (Z.of_nat (ndim a) < two64)%Z -> 0 < parts ->
  exists ps, array_split d a parts (Some ax) = Ok ps /\
    pieces_ok d a ax 0 (section_sizes (nth ax (shape a) 0) parts) ps.
Proof. exact @array_split_spec. Qed.

Theorem C11_split_even : forall (T : Type) (d : T) (a : arr T) parts ax,
  wf a -> pos_shape (shape a) -> 2 <= ndim a -> ax < ndim a -> (Z.of_nat (ndim a) < two64)%Z -> 0 < parts ->
  nth ax (shape a) 0 mod parts = 0 ->
  exists ps, split_even d a parts (Some ax) = Ok ps /\
    pieces_ok d a ax 0 (repeat (nth ax (shape a) 0 / parts) parts) ps.
Proof. exact @split_even_spec. Qed.

Theorem C11_split_uneven_refused : forall (T : Type) (d : T) (a : arr T) parts ax,
  wf a -> pos_shape (shape a) -> ax < ndim a -> 0 < parts -> nth ax (shape a) 0 mod parts <> 0 ->
  split_even d a parts (Some ax) = Err EParam.
Proof. exact @split_even_refuses. Qed.

Theorem C11_append_axis : forall (T : Type) (d : T) (a v : arr T) ax,
  wf a -> wf v -> pos_shape (shape a) -> pos_shape (shape v) -> 2 <= ndim a -> ndim v = ndim a -> ax < ndim a ->
  (Z.of_nat (ndim a) < two64)%Z -> remove_nth (shape a) ax = remove_nth (shape v) ax ->
  let na := nth ax (shape a) 0 in
  exists R, append d a v (Some ax) = Ok R /\ wf R /\ shape R = upd (shape a) ax (na + nth ax (shape v) 0) /\
    forall c, in_range (shape R) c ->
      get d R c = if nth ax c 0 <? na then get d a c else get d v (upd c ax (nth ax c 0 - na)).
Proof. exact @append_axis_spec. Qed.

Theorem C11_locate_def : forall (T : Type) (d : T) ax (a : arr T) t c,
  locate d ax (a :: t) c = if nth ax c 0 <? nth ax (shape a) 0 then get d a c
                           else locate d ax t (upd c ax (nth ax c 0 - nth ax (shape a) 0)).
Proof. reflexivity. Qed.

Theorem C11_concatenate_axis : forall (T : Type) (d : T) ax rs n (first : arr T) rest,
  2 <= n -> ax < n -> (Z.of_nat n < two64)%Z -> Forall (joinable ax rs n) (first :: rest) ->
  exists R, concatenate d (first :: rest) (Some ax) = Ok R /\ wf R /\ remove_nth (shape R) ax = rs /\ ndim R = n /\
    nth ax (shape R) 0 = fold_left (fun s a => s + nth ax (shape a) 0) rest (nth ax (shape first) 0) /\
    forall c, in_range (shape R) c -> get d R c = locate d ax (first :: rest) c.
Proof. exact @concatenate_axis_spec. Qed.

Theorem C11_joinable_def : forall (T : Type) ax rs n (a : arr T),
  joinable ax rs n a <-> wf a /\ pos_shape (shape a) /\ ndim a = n /\ remove_nth (shape a) ax = rs.
Proof. reflexivity. Qed.

Theorem C11_split_concatenate : forall (T : Type) (d : T) (a : arr T) parts ax,
  wf a -> pos_shape (shape a) -> 2 <= ndim a -> ax < ndim a -> (Z.of_nat (ndim a) < two64)%Z ->
  0 < parts <= nth ax (shape a) 0 ->
  exists ps, array_split d a parts (Some ax) = Ok ps /\ length ps = parts /\ concatenate d ps (Some ax) = Ok a.
Proof. exact @array_split_concatenate. Qed.

Theorem C11_stack : forall (T : Type) (d : T) s ax (first : arr T) rest,
  1 <= length s -> pos_shape s -> ax <= length s -> (Z.of_nat (S (length s)) < two64)%Z ->
  Forall (fun a => wf a /\ shape a = s) (first :: rest) ->
  exists R, stack d (first :: rest) (Some ax) = Ok R /\ wf R /\
    shape R = insert_nth s ax (length (first :: rest)) /\
    forall c, in_range (shape R) c ->
      get d R c = get d (nth (nth ax c 0) (first :: rest) first) (remove_nth c ax).
Proof. exact @stack_spec. Qed.

Theorem C11_dstack_matrices : forall (T : Type) (d : T) r c (first : arr T) rest,
  0 < r -> 0 < c -> Forall (fun a => wf a /\ shape a = [r; c]) (first :: rest) ->
  exists R, dstack d (first :: rest) = Ok R /\ wf R /\ shape R = [r; c; length (first :: rest)] /\
    forall i j k, i < r -> j < c -> k < length (first :: rest) ->
      get d R [i; j; k] = get d (nth k (first :: rest) first) [i; j].
Proof. exact @dstack_matrices. Qed.

Theorem C11_vstack_axis : forall (T : Type) (d : T) rs n (first : arr T) rest,
  2 <= n -> (Z.of_nat n < two64)%Z -> Forall (joinable 0 rs n) (first :: rest) ->
  exists R, concatenate d (first :: rest) (Some 0) = Ok R /\ vstack d (first :: rest) = Ok R.
Proof. exact @vstack_axis. Qed.

Theorem C11_hstack_axis : forall (T : Type) (d : T) rs n (first : arr T) rest,
  2 <= n -> (Z.of_nat n < two64)%Z -> Forall (joinable 1 rs n) (first :: rest) ->
  exists R, concatenate d (first :: rest) (Some 1) = Ok R /\ hstack_spec d (first :: rest) = Ok R.
Proof. exact @hstack_axis. Qed.

Theorem C11_dstack_axis : forall (T : Type) (d : T) rs n (first : arr T) rest,
  3 <= n -> (Z.of_nat n < two64)%Z -> Forall (joinable 2 rs n) (first :: rest) ->
  exists R, concatenate d (first :: rest) (Some 2) = Ok R /\ dstack d (first :: rest) = Ok R.
Proof. exact @dstack_axis. Qed.

Theorem C11_append_rank1 : forall (T : Type) (d : T) (a v : arr T) na nv,
  wf a -> wf v -> shape a = [na] -> shape v = [nv] ->
  append d a v (Some 0) = Ok (mk (elems a ++ elems v) [na + nv]).
Proof. exact @append_rank1. Qed.

Theorem C11_concatenate_rank1 : forall (T : Type) (d : T) (first : arr T) rest,
  Forall (fun a => wf a /\ ndim a = 1) (first :: rest) ->
  concatenate d (first :: rest) (Some 0) =
    Ok (mk (flat_map (@elems T) (first :: rest)) [length (flat_map (@elems T) (first :: rest))]).
Proof. exact @concatenate_rank1. Qed.

Theorem C11_hstack_rank1 : forall (T : Type) (d : T) (first : arr T) rest,
  Forall (fun a => wf a /\ ndim a = 1) (first :: rest) ->
  hstack_spec d (first :: rest) =
    Ok (mk (flat_map (@elems T) (first :: rest)) [length (flat_map (@elems T) (first :: rest))]) /\
  hstack_pinned d (first :: rest) = hstack_spec d (first :: rest).
Proof. exact @hstack_rank1. Qed.

Theorem C11_vstack_rank1 : forall (T : Type) (d : T) l (first : arr T) rest,
  Forall (fun a => wf a /\ shape a = [l]) (first :: rest) ->
  exists R, vstack d (first :: rest) = Ok R /\ wf R /\ shape R = [length (first :: rest); l] /\
    forall k j, k < length (first :: rest) -> j < l -> get d R [k; j] = nth j (elems (nth k (first :: rest) first)) d.
Proof. exact @vstack_rank1. Qed.

Theorem C11_col_locate_def : forall (T : Type) (d : T) (a : arr T) t i j,
  col_locate d (a :: t) i j = if j <? ncols a then nth (i * ncols a + j) (elems a) d else col_locate d t i (j - ncols a).
Proof. reflexivity. Qed.

Theorem C11_column_stack : forall (T : Type) (d : T) r (first : arr T) rest,
  Forall (fun a => wf a /\ (shape a = [r] \/ exists c, shape a = [r; c])) (first :: rest) ->
  exists R, column_stack (first :: rest) = Ok R /\ wf R /\
    shape R = [r; fold_left (fun s a => s + ncols a) (first :: rest) 0] /\
    forall i j, i < r -> j < fold_left (fun s a => s + ncols a) (first :: rest) 0 ->
      get d R [i; j] = col_locate d (first :: rest) i j.
Proof. exact @column_stack_spec. Qed.

Theorem C11_vstack_rank1_ragged : forall (T : Type) (d : T) (first : arr T) rest x,
  Forall (fun a => ndim a = 1) (first :: rest) -> In x rest -> shape x <> shape first ->
  vstack d (first :: rest) = Err EConcat.
Proof. exact @vstack_rank1_ragged. Qed.

Theorem C11_append_refuse_rank : forall (T : Type) (d : T) (a v : arr T) ax,
  ax < ndim a -> ndim a <> ndim v -> append d a v (Some ax) = Err EParam.
Proof. exact @append_refuse_rank. Qed.

Theorem C11_append_refuse_shape : forall (T : Type) (d : T) (a v : arr T) ax, ax < ndim a -> ndim a = ndim v ->
  remove_nth (shape a) ax <> remove_nth (shape v) ax -> append d a v (Some ax) = Err EParam.
Proof. exact @append_refuse_shape. Qed.

Theorem C11_concatenate_refuse : forall (T : Type) (d : T) (first : arr T) rest ax x y,
  Forall (fun a => ax < ndim a) (first :: rest) -> In x (first :: rest) -> In y (first :: rest) ->
  remove_nth (shape x) ax <> remove_nth (shape y) ax -> concatenate d (first :: rest) (Some ax) = Err EConcat.
Proof. exact @concatenate_refuse. Qed.

Theorem C11_stack_refuse : forall (T : Type) (d : T) (first : arr T) rest axis x y,
  In x (first :: rest) -> In y (first :: rest) -> shape x <> shape y -> stack d (first :: rest) axis = Err EParam.
Proof. exact @stack_refuse. Qed.

Theorem C11_column_stack_refuse : forall (T : Type) (first : arr T) rest r tl_ x,
  shape first = r :: tl_ -> Forall (fun a => ndim a = 1 \/ ndim a = 2) (first :: rest) ->
  In x (first :: rest) -> nth 0 (shape x) 0 <> r -> column_stack (first :: rest) = Err EParam.
Proof. exact @column_stack_refuse. Qed.

Theorem C11_vstack_refuse : forall (T : Type) (d : T) (first : arr T) rest x y,
  Forall (fun a => 1 <= ndim a) (first :: rest) -> In x (first :: rest) -> In y (first :: rest) ->
  remove_nth (shape x) 0 <> remove_nth (shape y) 0 -> vstack d (first :: rest) = Err EConcat.
Proof. exact @vstack_refuse. Qed.

Theorem C11_hstack_refuse : forall (T : Type) (d : T) (first : arr T) rest x y,
  Forall (fun a => 2 <= ndim a) (first :: rest) -> In x (first :: rest) -> In y (first :: rest) ->
  remove_nth (shape x) 1 <> remove_nth (shape y) 1 -> hstack_spec d (first :: rest) = Err EConcat.
Proof. exact @hstack_refuse. Qed.

Theorem C11_dstack_refuse : forall (T : Type) (d : T) (first : arr T) rest x y,
  Forall (fun a => 3 <= ndim a) (first :: rest) -> In x (first :: rest) -> In y (first :: rest) ->
  remove_nth (shape x) 2 <> remove_nth (shape y) 2 -> dstack d (first :: rest) = Err EConcat.
Proof. exact @dstack_refuse. Qed.

Theorem C11_dstack_vectors : forall (T : Type) (d : T) l (first : arr T) rest,
  0 < l -> Forall (fun a => wf a /\ shape a = [l]) (first :: rest) ->
  exists R, dstack d (first :: rest) = Ok R /\ wf R /\ shape R = [1; l; length (first :: rest)] /\
    forall j k, j < l -> k < length (first :: rest) ->
      get d R [0; j; k] = nth j (elems (nth k (first :: rest) first)) d.
Proof. exact @dstack_vectors. Qed.

(* inputs of MIXED rank: hstack / dstack act on the inputs raised to rank 2 / 3, which keep their elements — the
   theorems above (concatenation along axis 1 / 2 for inputs of sufficient rank) then apply to the promoted list *)
Theorem C11_dstack_promote : forall (T : Type) (d : T) (l l3 : list (arr T)),
  mapM (fun a => atleast a 3) l = Ok l3 ->
  dstack d l = dstack d l3 /\ Forall (fun a => 3 <= ndim a) l3 /\ Forall2 (fun a r => elems r = elems a) l l3.
Proof. exact @dstack_promote. Qed.

Theorem C11_hstack_promote : forall (T : Type) (d : T) strict (l l2 : list (arr T)),
  forallb (fun a : arr T => ndim a =? 1) l = false -> mapM (fun a => atleast a 2) l = Ok l2 ->
  hstack_gen d strict l = hstack_gen d strict l2 /\ Forall (fun a => 2 <= ndim a) l2 /\ Forall2 (fun a r => elems r = elems a) l l2.
Proof. exact @hstack_promote. Qed.

Theorem C11_promoted_shape : forall (T : Type) (a r : arr T) k, k = 2 \/ k = 3 -> atleast a k = Ok r ->
  k <= ndim r /\ elems r = elems a /\
  shape r = (if k <=? ndim a then shape a else
             match k, shape a with
             | 2, [] => [1; 1] | 2, x :: _ => [1; x]
             | _, [] => [1; 1; 1] | _, [x] => [1; x; 1] | _, x0 :: x1 :: _ => [x0; x1; 1]
             end).
Proof. exact @atleast_promoted. Qed.

Example C11_promote_nonvacuous :
  dstack 0%Z [mk [1;2]%Z [2]; mk [3;4]%Z [1;2]; mk [5;6]%Z [1;2;1]] = Ok (mk [1;3;5;2;4;6]%Z [1;2;3]) /\
  hstack_spec 0%Z [mk [1;2]%Z [2]; mk [3;4;5]%Z [1;3]] = Ok (mk [1;2;3;4;5]%Z [1;5]).
Proof. split; vm_compute; reflexivity. Qed.

Example C11_stack_nonvacuous :
  stack 0%Z [mk [1;2;3;4;5;6]%Z [2;3]; mk [7;8;9;10;11;12]%Z [2;3]] (Some 1) =
    Ok (mk [1;2;3;7;8;9;4;5;6;10;11;12]%Z [2;2;3]) /\
  vstack 0%Z [mk [1;2]%Z [2]; mk [3;4]%Z [2]; mk [5;6]%Z [2]] = Ok (mk [1;2;3;4;5;6]%Z [3;2]) /\
  dstack 0%Z [mk [1;2;3;4]%Z [2;2]; mk [5;6;7;8]%Z [2;2]] = Ok (mk [1;5;2;6;3;7;4;8]%Z [2;2;2]) /\
  column_stack [mk [1;2]%Z [2]; mk [3;4;5;6]%Z [2;2]] = Ok (mk [1;3;4;2;5;6]%Z [2;3]).
Proof. repeat split; vm_compute; reflexivity. Qed.

Example C11_split_nonvacuous :
  array_split 0%Z (mk (map Z.of_nat (seq 0 12)) [2;3;2]) 2 (Some 1) =
    Ok [mk [0;1;2;3;6;7;8;9]%Z [2;2;2]; mk [4;5;10;11]%Z [2;1;2]].
Proof. vm_compute. reflexivity. Qed.

Example C11_nonvacuous :
  section_sizes 7 3 = [3;2;2] /\
  append 0%Z (mk [0;1;2;3;4;5]%Z [2;3]) (mk [10;11;12;13]%Z [2;2]) (Some 1) = Ok (mk [0;1;2;10;11;3;4;5;12;13]%Z [2;5]) /\
  array_split 0%Z (mk (map Z.of_nat (seq 0 10)) [5;2]) 3 (Some 0)
    = Ok [mk [0;1;2;3]%Z [2;2]; mk [4;5;6;7]%Z [2;2]; mk [8;9]%Z [1;2]].
Proof. repeat split; vm_compute; reflexivity. Qed.

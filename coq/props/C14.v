(* C14 — vector and matrix products equal their defining sums when operands conform.
   Scalars: any type with add / mul (the theorems need no algebraic law: sums are the left folds the code performs,
   so they also describe the floating-point evaluation order); entry_sum a b k i j = sum over t < k of a[i,t]*b[t,j].
   matmul22 false = the specified product; matmul22 true = the repository's (extra comparison rows(a) = cols(b),
   pinned by its test_linalg_dot case 15): sound whenever it answers, refuted on [n,k] x [k,p] with n <> p (F15).
   STACKS: C14_matmul_stacks — for equally long stacks [s,n,k] x [s,k,n] block t of the product is the matrix product
   of block t of each operand (the split into blocks, the pairwise products and the re-assembly are inside the theorem).
   REFUSALS: operands whose contracted lengths differ are answered with an error value — two matrices (C14_refuse), the
   flattened dot of operands with different element counts, the inner product of vectors of different lengths, a matrix
   with a vector and a vector with a matrix (C14_vdot_refuse, C14_inner_vectors_refuse, C14_matvec_refuse, C14_vecmat_refuse). *)
From ArrRs Require Import Index Axis Linalg Linalg_proofs Matstack_proofs Join_refuse.

Theorem C14_matmul22 : forall (T : Type) (zero : T) (add mul : T -> T -> T) (strict : bool) (a b : arr T) n k p,
  shape a = [n; k] -> shape b = [k; p] -> (strict = true -> n = p) ->
  exists r, matmul22 zero add mul strict a b = Ok r /\ shape r = [n; p] /\ wf r /\
    forall i j, i < n -> j < p -> get zero r [i; j] = entry_sum zero add mul a b k i j.
Proof. exact @matmul22_spec. Qed.

Theorem C14_refuse : forall (T : Type) (zero : T) (add mul : T -> T -> T) (strict : bool) (a b : arr T) n k k' p,
  shape a = [n; k] -> shape b = [k'; p] -> k <> k' -> matmul22 zero add mul strict a b = Err EParam.
Proof. exact @matmul22_refuse. Qed.

Theorem C14_matmul_pinned_sound : forall (T : Type) (zero : T) (add mul : T -> T -> T) (a b r : arr T),
  matmul22 zero add mul true a b = Ok r -> matmul22 zero add mul false a b = Ok r.
Proof. exact @matmul22_pinned_sound. Qed.

Theorem C14_matmul_pinned_refuted :
  exists a b : arr Z, matmul22 0%Z Z.add Z.mul true a b = Err EParam /\
    matmul22 0%Z Z.add Z.mul false a b = Ok (mk [9;12;15;19;26;33]%Z [2;3]).
Proof. exact matmul22_pinned_refuted. Qed.

Theorem C14_matvec : forall (T : Type) (zero : T) (add mul : T -> T -> T) (m v : arr T) rows cols,
  shape m = [rows; cols] ->
  mat_vec zero add mul m v =
  Ok (mk (map (fun i => fold_left add (map (fun t => mul (get zero m [i; t]) (nth t (elems v) zero)) (seq 0 cols)) zero) (seq 0 rows)) [rows]).
Proof. exact @mat_vec_spec. Qed.

Theorem C14_vecmat : forall (T : Type) (zero : T) (add mul : T -> T -> T) (v m : arr T) rows cols,
  shape m = [rows; cols] ->
  vec_mat zero add mul v m =
  Ok (mk (map (fun j => fold_left add (map (fun i => mul (nth i (elems v) zero) (get zero m [i; j])) (seq 0 rows)) zero) (seq 0 cols)) [cols]).
Proof. exact @vec_mat_spec. Qed.

Theorem C14_vdot : forall (T : Type) (zero : T) (add mul : T -> T -> T) (a b : arr T),
  (len a = len b -> vdot zero add mul a b = Ok (mk [dot_list zero add mul (elems a) (elems b)] [1])) /\
  (len a <> len b -> vdot zero add mul a b = Err EEqual).
Proof. intros. split; [apply vdot_spec | apply vdot_refuse]. Qed.

Theorem C14_outer : forall (T : Type) (zero : T) (mul : T -> T -> T) (a b : arr T),
  exists r, outer mul a b = Ok r /\ shape r = [len a; len b] /\
    forall i j, i < len a -> j < len b -> get zero r [i; j] = mul (nth i (elems a) zero) (nth j (elems b) zero).
Proof. exact @outer_spec. Qed.

Theorem C14_matmul_stacks : forall (T : Type) (zero : T) (add mul : T -> T -> T) (strict : bool) (a b : arr T) s n k,
  wf a -> wf b -> shape a = [s; n; k] -> shape b = [s; k; n] -> 0 < s -> 0 < n -> 0 < k ->
  exists R, matmul zero add mul strict a b = Ok R /\ shape R = [s; n; n] /\ wf R /\
    forall t i j, t < s -> i < n -> j < n ->
      get zero R [t; i; j] =
      fold_left (fun acc u => add (mul (get zero a [t; i; u]) (get zero b [t; u; j])) acc) (seq 0 k) zero.
Proof. exact @matmul_stack_spec. Qed.

Example C14_nonvacuous :
  matmul22 0%Z Z.add Z.mul true (mk [1;2;3;4;5;6]%Z [2;3]) (mk [1;2;3;4;5;6]%Z [3;2]) = Ok (mk [22;28;49;64]%Z [2;2]) /\
  entry_sum 0%Z Z.add Z.mul (mk [1;2;3;4;5;6]%Z [2;3]) (mk [1;2;3;4;5;6]%Z [3;2]) 3 1 0 = 49%Z.
Proof. split; vm_compute; reflexivity. Qed.

Theorem C14_vdot_refuse : forall (T : Type) (zero : T) (add mul : T -> T -> T) (a b : arr T),
  len a <> len b -> vdot zero add mul a b = Err EEqual.
Proof. exact @vdot_refuse. Qed.

Theorem C14_inner_vectors_refuse : forall (T : Type) (zero : T) (add mul : T -> T -> T) (a b : arr T) n m,
  shape a = [n] -> shape b = [m] -> n <> m -> inner zero add mul a b = Err EParam.
Proof. exact @inner_vectors_refuse. Qed.

Theorem C14_matvec_refuse : forall (T : Type) (zero : T) (add mul : T -> T -> T) strict (m v : arr T) r c n,
  shape m = [r; c] -> shape v = [n] -> c <> n -> matmul zero add mul strict m v = Err EParam.
Proof. exact @matvec_refuse. Qed.

Theorem C14_vecmat_refuse : forall (T : Type) (zero : T) (add mul : T -> T -> T) strict (v m : arr T) n r c,
  shape v = [n] -> shape m = [r; c] -> n <> r -> matmul zero add mul strict v m = Err EParam.
Proof. exact @vecmat_refuse. Qed.

(* C18 — array literals and text forms carry shape and elements faithfully.
   PROVED: the modelled run-time pipeline of the literal macro (bracket counting, array_parse_shape!, element
   splitting) returns the nesting's shape and the elements in reading order for ALL 340 shapes of rank 1..4 with axis
   lengths 1..4 (the property's own bound; finite domain decided by vm_compute and lifted; atoms are distinct
   numerals) — C18_literal_shapes_le4; the plain text form nests brackets according to the shape (1-D: the elements;
   n-D: the text forms of the leading slabs); the pretty form has exactly the same content once spaces and line breaks
   are removed.
   pairs, triples and lists of any length survive the round trip through their text form "(a, b, c)" / "[a, b, c]"
   whenever no component contains a comma and the first / last component does not begin / end with the enclosing
   bracket (C18_tuple_roundtrip, C18_list_roundtrip; components may be empty or contain spaces).
   PARTIAL: the unbounded literal theorem (all ranks / lengths / atoms) is not proved; char / String / Tuple / List
   literal arms are checked by the correspondence run only (generated program with 781 literals).  OPEN FINDING F19: String literals containing ',' '[' ']'
   are mis-parsed (the macro cuts the {:?} text on those characters). *)
From ArrRs Require Import Index Axis Str Text Text_proofs Tuple_proofs.

Theorem C18_literal_shapes_le4 : forall sh, In sh literal_shapes ->
  parse_literal (dbg (Node [full_tree sh numeral 0])) = Ok (mk (map numeral (seq 0 (prod sh))) sh).
Proof. exact literal_shapes_le4. Qed.

Theorem C18_literal_shapes_count : length literal_shapes = 340.
Proof. exact literal_shapes_count. Qed.

Theorem C18_display_nest_1d : forall es d, build_string [d] es false 1 = [lbr] ++ join_with [comma; space] es ++ [rbr].
Proof. exact display_nest_1d. Qed.

Theorem C18_display_nest_nd : forall d d2 rest es alt prefix,
  build_string (d :: d2 :: rest) es alt prefix =
  [lbr] ++ join_with (if alt then [comma; 10%Z] ++ repeat space prefix else [comma; space])
                     (map (fun c => build_string (d2 :: rest) c alt (S prefix)) (chunk_list d (prod (d2 :: rest)) es)) ++ [rbr].
Proof. exact display_nest_nd. Qed.

Theorem C18_pretty : forall sh es prefix,
  no_layout (build_string sh es true prefix) = no_layout (build_string sh es false prefix).
Proof. exact pretty_same_content. Qed.

Theorem C18_tuple_roundtrip : forall l : list str, l <> [] -> Forall no_comma l ->
  first_ok (Z.eqb lpar) (join_with [comma; space] l) -> first_ok (Z.eqb rpar) (rev (join_with [comma; space] l)) ->
  parse_tuple (show_tuple l) = l.
Proof. exact tuple_roundtrip. Qed.

Theorem C18_list_roundtrip : forall l : list str, l <> [] -> Forall no_comma l ->
  first_ok (fun c => (c =? lpar) || (c =? lbr))%Z (join_with [comma; space] l) ->
  first_ok (fun c => (c =? rpar) || (c =? rbr))%Z (rev (join_with [comma; space] l)) ->
  parse_list (show_list l) = l.
Proof. exact list_roundtrip. Qed.

Example C18_roundtrip_nonvacuous :
  let l := [[49]; [32; 120; 32]; []; [45; 50]]%Z in
  l <> [] /\ Forall no_comma l /\ first_ok (Z.eqb lpar) (join_with [comma; space] l) /\
  first_ok (Z.eqb rpar) (rev (join_with [comma; space] l)) /\ parse_tuple (show_tuple l) = l.
Proof. cbn zeta. repeat split; try discriminate; try (vm_compute; reflexivity); repeat constructor; discriminate. Qed.

Example C18_nonvacuous :
  In [2;3;4] literal_shapes /\
  dbg (Node [full_tree [2;2] numeral 0]) = [91;91;91;48;44;32;49;93;44;32;91;50;44;32;51;93;93;93]%Z /\
  display (mk [[49];[50];[51];[52]]%Z [2;2]) true = [91;91;49;44;32;50;93;44;10;32;91;51;44;32;52;93;93]%Z.
Proof. split; [vm_compute; tauto|]. split; vm_compute; reflexivity. Qed.

(* C05 — one-operand functions and closure iteration keep shape, order, multiplicity.
   A caller's closure with captured mutable state is a state-passing function f : S -> nat -> T -> S * U
   (state, flat position, element); run_closure threads the state through the elements. *)
From ArrRs Require Import Index Axis Lift Lift_proofs.

(* mapping a function: same shape, at every position the function of the input element at that position *)
Theorem C05_map : forall (T U : Type) (f : T -> U) (a : arr T),
  wf a -> map_arr f a = Ok (mk (map f (elems a)) (shape a)).
Proof. exact @map_arr_ok. Qed.

Theorem C05_map_get : forall (T U : Type) (f : T -> U) (d : T) (a : arr T) c,
  wf a -> exists r, map_arr f a = Ok r /\ shape r = shape a /\ get (f d) r c = f (get d a c).
Proof. exact @map_arr_get. Qed.

(* a stateful closure is applied to each element exactly once, in flat order, the enumerating variants
   passing the flat position: an order-observing (logging) closure records exactly (0,x0),(1,x1),... *)
Theorem C05_visit_once : forall (T U : Type) (g : nat -> T -> U) (log : list (nat * T)) i es,
  run_closure (fun s k x => (s ++ [(k, x)], g k x)) log i es =
  (log ++ combine (seq i (length es)) es, map (fun kx => g (fst kx) (snd kx)) (combine (seq i (length es)) es)).
Proof. exact @run_closure_log. Qed.

Theorem C05_map_e : forall (T U S : Type) (f : S -> nat -> T -> S * U) s0 (a : arr T),
  wf a ->
  map_e f s0 a = (fst (run_closure f s0 0 (elems a)), Ok (mk (snd (run_closure f s0 0 (elems a))) (shape a))).
Proof. exact @map_e_spec. Qed.

(* filtering returns the accepted elements as a flat array in their original order *)
Theorem C05_filter : forall (T S : Type) (p : T -> bool) (s0 : S) (a : arr T),
  filter_e (fun s _ x => (s, p x)) s0 a = (s0, Ok (mk (filter p (elems a)) [length (filter p (elems a))])).
Proof. exact @filter_pure_spec. Qed.

(* folding combines elements left to right *)
Theorem C05_fold : forall (T U : Type) (f : U -> T -> U) init (a : arr T),
  fold_arr f init a = fold_left f (elems a) init.
Proof. exact @fold_arr_spec. Qed.

Example C05_nonvacuous :
  run_closure (fun s k x => (s ++ [(k, x)], (x * 2)%Z)) [] 0 [5;6;7]%Z = ([(0,5%Z);(1,6%Z);(2,7%Z)], [10;12;14]%Z).
Proof. reflexivity. Qed.

(* C05 — one-operand functions and closure iteration keep shape, order, multiplicity.
   A caller's closure with captured mutable state is a state-passing function f : S -> nat -> T -> S * U
   (state, flat position, element); run_closure threads the state through the elements.
   frexp / ldexp are modelled on exact dyadic values m * 2^e (Dyadic.v): PROVED — decomposition recombines to the
   original value, the mantissa lies in [1/2, 1), the exponent does not depend on the representation, both act
   position by position on arrays.  MODELLED, NOT PROVED: that the f64 halving/doubling loops of floating.rs compute
   these exact values whenever the result is a double (checked per case, bit-exactly, by the correspondence check over
   every binade); the float bodies of the other one-operand functions (compared with the implementation's own scalar
   call at the label the model places at each position). *)
From ArrRs Require Import Index Axis Lift Lift_proofs Dyadic Dyadic_proofs.

(* mapping a function: same shape, at every position the function of the input element at that position *)
Theorem C05_map : forall (T U : Type) (f : T -> U) (a : arr T),
  wf a -> map_arr f a = Ok (mk (map f (elems a)) (shape a)).
Proof. exact @map_arr_ok. Qed.

Theorem C05_map_get : forall (T U : Type) (f : T -> U) (d : T) (a : arr T) c,
  wf a -> exists r, map_arr f a = Ok r /\ shape r = shape a /\ get (f d) r c = f (get d a c).
Proof. exact @map_arr_get. Qed.

(* a stateful closure is applied to each element exactly once, in flat order, the enumerating variants
   passing the flat position: an order-observing (logging) closure records exactly (0,x0),(1,x1),... *)
Theorem C05_visit_once : forall (T U : Type) (g : nat -> T -> U) (log : list (nat * T)) i es,
  run_closure (fun s k x => (s ++ [(k, x)], g k x)) log i es =
  (log ++ combine (seq i (length es)) es, map (fun kx => g (fst kx) (snd kx)) (combine (seq i (length es)) es)).
Proof. exact @run_closure_log. Qed.

Theorem C05_map_e : forall (T U S : Type) (f : S -> nat -> T -> S * U) s0 (a : arr T),
  wf a ->
  map_e f s0 a = (fst (run_closure f s0 0 (elems a)), Ok (mk (snd (run_closure f s0 0 (elems a))) (shape a))).
Proof. exact @map_e_spec. Qed.

(* filtering returns the accepted elements as a flat array in their original order *)
Theorem C05_filter : forall (T S : Type) (p : T -> bool) (s0 : S) (a : arr T),
  filter_e (fun s _ x => (s, p x)) s0 a = (s0, Ok (mk (filter p (elems a)) [length (filter p (elems a))])).
Proof. exact @filter_pure_spec. Qed.

(* folding combines elements left to right *)
Theorem C05_fold : forall (T U : Type) (f : U -> T -> U) init (a : arr T),
  fold_arr f init a = fold_left f (elems a) init.
Proof. exact @fold_arr_spec. Qed.

(* mantissa / exponent decomposition recombines to the original value *)
Theorem C05_frexp_recombines : forall x : dy, fst x <> 0%Z -> ldexp_d (fst (frexp_d x)) (snd (frexp_d x)) = x.
Proof. exact frexp_ldexp. Qed.

Theorem C05_frexp_recombines_canonical : forall x : dy,
  canon (ldexp_d (canon (fst (frexp_d x))) (snd (frexp_d x))) = canon x.
Proof. exact frexp_ldexp_canon. Qed.

(* the mantissa m * 2^(-b) lies in [1/2, 1): 2^(b-1) <= |m| < 2^b *)
Theorem C05_frexp_range : forall m e, m <> 0%Z ->
  let b := (Z.log2 (Z.abs m) + 1)%Z in
  frexp_d (m, e) = ((m, (- b)%Z), (b + e)%Z) /\ (2 ^ (b - 1) <= Z.abs m < 2 ^ b)%Z.
Proof. exact frexp_range. Qed.

Theorem C05_frexp_value_only : forall m e, m <> 0%Z -> snd (frexp_d (canon (m, e))) = snd (frexp_d (m, e)).
Proof. exact frexp_canon. Qed.

Theorem C05_frexp_array : forall a : arr dy, wf a ->
  frexp_arr a = Ok (mk (map (fun x => fst (frexp_e x)) (elems a)) (shape a),
                    mk (map (fun x => snd (frexp_e x)) (elems a)) (shape a)).
Proof. exact frexp_arr_spec. Qed.

Theorem C05_frexp_elem : forall x, is_special x = false -> frexp_e x = (canon (fst (frexp_d x)), snd (frexp_d x)).
Proof. exact frexp_e_finite. Qed.

Theorem C05_ldexp_elem : forall x k, is_special x = false -> ldexp_e x k = canon (ldexp_d x k).
Proof. exact ldexp_e_finite. Qed.

Example C05_frexp_nonvacuous :
  frexp_d (3, -1074)%Z = ((3, -2), -1072)%Z /\ frexp_d (9007199254740991, 971)%Z = ((9007199254740991, -53), 1024)%Z /\
  canon (12, 5)%Z = (3, 7)%Z.
Proof. repeat split; vm_compute; reflexivity. Qed.

Example C05_nonvacuous :
  run_closure (fun s k x => (s ++ [(k, x)], (x * 2)%Z)) [] 0 [5;6;7]%Z = ([(0,5%Z);(1,6%Z);(2,7%Z)], [10;12;14]%Z).
Proof. reflexivity. Qed.

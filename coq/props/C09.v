(* C09 — failures are error values and flow unchanged through chained calls.   (PARTIAL)
   PROVED about the model: a chainable operation invoked on an error result returns that same error, for every error
   variant and every operation, along any chain (every Result-receiver implementation is `self.clone()?.op(..)`, a
   bind); a list of results reports its first error; the constructors, the reshaping family, coordinate translation
   and the axis operations never evaluate to Panic (invalid arguments give Err), option names parse to a known kind or
   a parameter error.  AXIS TOTALITY (the C09_axis_total theorems): for EVERY signed axis value of the isize range, flip, roll,
   sort, the reductions, scans and counting / searching operations (any total 1-D body), unpack_bits and pack_bits on a
   well-formed non-empty array answer with an array or with AxisOutOfBounds — the operation's specification for a
   valid axis joined with its refusal for an invalid one; never Panic.
   PARTIAL: totality is proved of the model's entry sequences, whose Panic guards are hand-derived from the Rust
   source; that the real code has no panic site the model lacks is established by the out-of-domain stream of the
   correspondence run (every axis in [-rank-3, rank+3] and at +-2^31, +-2^62, isize::MIN/MAX, indices up to len+2,
   wrong-length vectors, unknown option names, zero parts, on arrays of rank 1..4 for every modelled operation) and by
   a generated program (tools/inventory.py) that feeds all 15 error variants to all 202 chainable methods of the
   crate.  Stack overflow, allocation failure and overflow on astronomically large shapes are outside the model. *)
From ArrRs Require Import Index Axis Axis_proofs Broadcast_proofs Reduce Reorder Sort Sort_proofs Bits Errors_proofs Total_axis.

Theorem C09_propagate : forall (A B : Type) (e : err) (op : A -> res B), on_result (Err e) op = Err e.
Proof. exact @propagate. Qed.

Theorem C09_propagate_chain : forall (A : Type) (e : err) (ops : list (A -> res A)),
  fold_left (fun r op => on_result r op) ops (Err e) = Err e.
Proof. exact @propagate_chain. Qed.

Theorem C09_first_error : forall (A B : Type) (f : A -> res B) (l1 : list A) x (l2 : list A) e,
  (forall y, In y l1 -> exists v, f y = Ok v) -> f x = Err e -> mapM f (l1 ++ x :: l2) = Err e.
Proof. exact @mapM_first_error. Qed.

Theorem C09_constructors_total : forall (T : Type) (es : list T) sh nd (x : T),
  new es sh <> Panic /\ create es sh nd <> Panic /\ single x <> Panic /\ flat_arr es <> Panic /\ @empty T <> Panic.
Proof. exact @constructors_total. Qed.

Theorem C09_reshape_family_total : forall (T : Type) (d : T) (a : arr T) sh n axes saxes,
  reshape a sh <> Panic /\ ravel a <> Panic /\ atleast a n <> Panic /\ expand_dims a axes <> Panic /\
  squeeze a saxes <> Panic /\ resize d a sh <> Panic /\ cycle_take d a n <> Panic.
Proof. exact @reshape_family_total. Qed.

Theorem C09_indexing_total : forall sh c n i, index_at sh c <> Panic /\ index_to_coord n sh i <> Panic.
Proof. exact indexing_total. Qed.

Theorem C09_axis_ops_total : forall (T : Type) (d : T) (a : arr T) axes s t ax st x y, ndim a <> 0 ->
  transpose d a axes <> Panic /\ moveaxis d a s t <> Panic /\ rollaxis d a ax st <> Panic /\ swapaxes d a x y <> Panic.
Proof. exact @axis_ops_total. Qed.

Theorem C09_option_names : forall s,
  ((exists k, parse_kind s = Ok k) \/ parse_kind s = Err EParam) /\
  (parse_bit_order s = Ok Big \/ parse_bit_order s = Ok Little \/ parse_bit_order s = Err EParam).
Proof. intros s. split; [apply parse_kind_cases | apply parse_bit_order_cases]. Qed.

Theorem C09_value_or_axis_error_def : forall (A : Type) (r : res A),
  value_or_axis_error r <-> ((exists v, r = Ok v) \/ r = Err EAxis).
Proof. reflexivity. Qed.

Theorem C09_axis_total_reorder : forall (T : Type) (d : T) (a : arr T) s z,
  wf a -> pos_shape (shape a) -> (Z.of_nat (ndim a) < 9223372036854775808)%Z -> (- 9223372036854775808 <= z < 9223372036854775808)%Z ->
  value_or_axis_error (flip d a (Some [z])) /\ (2 <= ndim a -> value_or_axis_error (roll d a [s] (Some [z]))).
Proof. intros. split; [apply flip_total | intros; apply roll_total]; assumption. Qed.

Theorem C09_axis_total_lanes : forall (T U : Type) (d : T) (du : U) (a : arr T) z
    (g1 : list T -> res T) (h : list T -> T) (g : list T -> list T) (i1 : list T -> res U) (hi : list T -> U) keepdims,
  wf a -> pos_shape (shape a) -> (Z.of_nat (ndim a) < 9223372036854775808)%Z -> (- 9223372036854775808 <= z < 9223372036854775808)%Z ->
  (forall l, g1 l = Ok (h l)) -> (forall l, length (g l) = length l) -> (forall l, i1 l = Ok (hi l)) ->
  value_or_axis_error (reduce d g1 a (Some z)) /\ value_or_axis_error (scan d g a (Some z)) /\
  value_or_axis_error (index_reduce d du i1 a (Some z) keepdims).
Proof.
  intros. split; [eapply reduce_total; eauto | split; [apply scan_total; auto | eapply index_reduce_total; eauto]].
Qed.

Theorem C09_axis_total_sort : forall (T : Type) (ltb : T -> T -> bool) (d : T),
  (forall x y, ltb x y = true -> le ltb x y) -> (forall x y z, le ltb x y -> le ltb y z -> le ltb x z) ->
  forall (a : arr T) z k,
  wf a -> pos_shape (shape a) -> (Z.of_nat (ndim a) < 9223372036854775808)%Z -> (- 9223372036854775808 <= z < 9223372036854775808)%Z ->
  value_or_axis_error (sort_arr ltb d a (Some z) (Ok k)).
Proof. exact @sort_total. Qed.

Theorem C09_axis_total_bits : forall (a : arr Z) z o,
  wf a -> pos_shape (shape a) -> (Z.of_nat (ndim a) < 9223372036854775808)%Z -> (- 9223372036854775808 <= z < 9223372036854775808)%Z ->
  value_or_axis_error (unpack_bits a (Some z) None (Ok o)) /\ value_or_axis_error (pack_bits a (Some z) (Ok o)).
Proof. intros. split; [apply unpack_bits_total | apply pack_bits_total]; assumption. Qed.

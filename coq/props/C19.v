(* C19 — bit unpacking and packing are inverse, in either bit order.
   PROVED: every byte unpacks to its eight bits (most significant first for Big, reversed for Little) and packs back
   (all 256 values: finite domain decided by vm_compute and lifted with forallb_forall); for byte lists of every
   length, packing what was unpacked returns the bytes (flat form and 1-D arrays incl. shape); a short final group is
   zero padded; unpacking multiplies the flat length by eight; the binary representation parses back (two's complement
   for negatives); ALONG AN AXIS of an array of any rank (via the lane theorem of C08): unpacking multiplies the axis
   length by eight and every lane of the result is the unpacking of the corresponding lane; packing divides it by
   eight (rounded up) and packs every lane; unpacking then packing along the same axis returns the array.
   WITH A BIT COUNT along an axis (C19_unpack_axis_count): every lane of the result is the first `stop` bits of the
   unpacked lane — a non-negative count is the number of bits kept, a negative count trims that many bits off the end
   (counts beyond the lane's bits are refused by the slice; a zero stop is outside the theorem). *)
From ArrRs Require Import Index Axis Axis_proofs Broadcast_proofs Reduce Along_proofs Bits Bits_proofs Along_uses Bits_count.

Theorem C19_byte : forall o b, (0 <= b < 256)%Z ->
  pack8 o (unpack8 o b) = b /\ length (unpack8 o b) = 8 /\
  (forall k, k < 8 -> nth k (unpack8 Big b) 0%Z = ((b / 2 ^ Z.of_nat (7 - k)) mod 2)%Z) /\
  unpack8 Little b = rev (unpack8 Big b).
Proof. exact byte_roundtrip. Qed.

Theorem C19_roundtrip_flat : forall o bs, Forall (fun b => (0 <= b < 256)%Z) bs -> pack_flat o (unpack_flat o bs) = bs.
Proof. exact pack_unpack_flat. Qed.

Theorem C19_roundtrip_1d : forall o (a : arr Z), wf a -> ndim a = 1 -> len a <> 0 ->
  Forall (fun b => (0 <= b < 256)%Z) (elems a) ->
  (let* u := unpack1 o None a in pack1 o u) = Ok a.
Proof. exact pack_unpack_1d. Qed.

Theorem C19_pad : forall o bits,
  pack_flat o bits = pack_flat o (bits ++ repeat 0%Z ((8 - length bits mod 8) mod 8)).
Proof. exact pack_pad. Qed.

Theorem C19_unpack_length : forall o (a : arr Z), len a <> 0 ->
  unpack1 o None a = Ok (mk (unpack_flat o (elems a)) [len a * 8]).
Proof. exact unpack1_ok. Qed.

Theorem C19_binary_repr : forall width n, 0 < width ->
  ((0 <= n < 2 ^ Z.of_nat width)%Z -> parse_binary (binary_repr width n) = n) /\
  ((- 2 ^ Z.of_nat (width - 1) <= n < 0)%Z -> parse_binary (binary_repr width n) = (n + 2 ^ Z.of_nat width)%Z).
Proof. exact binary_repr_roundtrip. Qed.

Example C19_nonvacuous :
  unpack8 Big 6%Z = [0;0;0;0;0;1;1;0]%Z /\ unpack8 Little 6%Z = [0;1;1;0;0;0;0;0]%Z /\
  pack_flat Big [1;0;1]%Z = [160]%Z /\ binary_repr 8 (-3)%Z = [1;1;1;1;1;1;0;1]%Z.
Proof. repeat split; vm_compute; reflexivity. Qed.

(* along an axis *)
Theorem C19_unpack_axis : forall (a : arr Z) z o,
  wf a -> pos_shape (shape a) -> (Z.of_nat (ndim a) < two64)%Z -> axis_ok (ndim a) z ->
  let ax := norm_nat (ndim a) z in
  exists R, unpack_bits a (Some z) None (Ok o) = Ok R /\ wf R /\
    shape R = upd (shape a) ax (nth ax (shape a) 0 * 8) /\
    forall c, in_range (shape R) c ->
      get 0%Z R c = nth (nth ax c 0) (unpack_flat o (elems (lane 0%Z a ax (remove_nth c ax)))) 0%Z.
Proof. exact unpack_axis_spec. Qed.

Theorem C19_pack_axis : forall (a : arr Z) z o,
  wf a -> pos_shape (shape a) -> (Z.of_nat (ndim a) < two64)%Z -> axis_ok (ndim a) z ->
  let ax := norm_nat (ndim a) z in
  exists R, pack_bits a (Some z) (Ok o) = Ok R /\ wf R /\
    shape R = upd (shape a) ax ((nth ax (shape a) 0 + 7) / 8) /\
    forall c, in_range (shape R) c ->
      get 0%Z R c = nth (nth ax c 0) (pack_flat o (elems (lane 0%Z a ax (remove_nth c ax)))) 0%Z.
Proof. exact pack_axis_spec. Qed.

Theorem C19_roundtrip_axis : forall (a : arr Z) z o,
  wf a -> pos_shape (shape a) -> (Z.of_nat (ndim a) < two64)%Z -> axis_ok (ndim a) z ->
  Forall (fun b => (0 <= b < 256)%Z) (elems a) ->
  exists u, unpack_bits a (Some z) None (Ok o) = Ok u /\ pack_bits u (Some z) (Ok o) = Ok a.
Proof. exact pack_unpack_axis. Qed.

Example C19_axis_nonvacuous :
  unpack_bits (mk [1;2;3;4]%Z [2;2]) (Some (-2)%Z) None (Ok Little) =
    Ok (mk [1;0; 0;1; 0;0; 0;0; 0;0; 0;0; 0;0; 0;0; 1;0; 1;0; 0;1; 0;0; 0;0; 0;0; 0;0; 0;0]%Z [16;2]).
Proof. vm_compute. reflexivity. Qed.

Theorem C19_unpack_axis_count : forall (a : arr Z) z c o,
  wf a -> pos_shape (shape a) -> (Z.of_nat (ndim a) < two64)%Z -> axis_ok (ndim a) z ->
  let ax := norm_nat (ndim a) z in
  let L := nth ax (shape a) 0 in
  let stop := if (0 <=? c)%Z then Z.to_nat c else L * 8 - Z.to_nat (- c) in
  (if (0 <=? c)%Z then (Z.to_nat c <= L * 8) else (- c <= Z.of_nat (L * 8))%Z) ->
  exists R, unpack_bits a (Some z) (Some c) (Ok o) = Ok R /\ wf R /\ shape R = upd (shape a) ax stop /\
    forall p, in_range (shape R) p ->
      get 0%Z R p = nth (nth ax p 0) (unpack_flat o (elems (lane 0%Z a ax (remove_nth p ax)))) 0%Z.
Proof. exact unpack_axis_count_spec. Qed.

Example C19_count_nonvacuous :
  unpack_bits (mk [129; 3; 255; 16]%Z [2;2]) (Some 1%Z) (Some (-5)%Z) (Ok Big) =
    Ok (mk [1;0;0;0;0;0;0;1;0;0;0; 1;1;1;1;1;1;1;1;0;0;0]%Z [2;11]).
Proof. vm_compute. reflexivity. Qed.

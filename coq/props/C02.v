(* C02 — coordinates and flat positions are a row-major bijection.
   Only property theorems: each is closed by [exact lemma] and followed by Print Assumptions. *)
From ArrRs Require Import Index Index_proofs.

(* translating an in-range coordinate vector gives the Horner (row-major) position *)
Theorem C02_index_at_horner : forall sh c, in_range sh c -> index_at sh c = Ok (flat sh c).
Proof. exact index_at_ok. Qed.

(* coordinate -> position -> coordinate *)
Theorem C02_roundtrip_cf : forall sh c, in_range sh c ->
  exists i, index_at sh c = Ok i /\ i < prod sh /\ index_to_coord (prod sh) sh i = Ok c.
Proof.
  intros sh c H. exists (flat sh c). split; [now apply index_at_ok|]. split; [now apply flat_lt|].
  rewrite index_to_coord_ok by (auto using flat_lt). now rewrite unravel_flat.
Qed.

(* position -> coordinate -> position *)
Theorem C02_roundtrip_fc : forall sh i, i < prod sh ->
  exists c, index_to_coord (prod sh) sh i = Ok c /\ in_range sh c /\ index_at sh c = Ok i.
Proof.
  intros sh i H. exists (unravel sh i). split; [now apply index_to_coord_ok|].
  split; [now apply unravel_in_range|].
  rewrite index_at_ok by now apply unravel_in_range. now rewrite flat_unravel.
Qed.

(* positions grow in lexicographic coordinate order, the last axis varying fastest *)
Theorem C02_row_major : forall sh c c', in_range sh c -> in_range sh c' ->
  (lex_lt c c' <-> flat sh c < flat sh c').
Proof. exact flat_lex_mono. Qed.

Theorem C02_last_axis_fastest : forall sh d c i, length c = length sh ->
  flat (sh ++ [d]) (c ++ [S i]) = S (flat (sh ++ [d]) (c ++ [i])).
Proof. exact flat_last_step. Qed.

(* lookup by method and by both indexing operators returns the element stored at that position *)
Theorem C02_at : forall (T : Type) (d : T) (a : arr T) c, wf a -> in_range (shape a) c ->
  at_ a c = Ok (nth (flat (shape a) c) (elems a) d) /\
  index_coords a c = Ok (nth (flat (shape a) c) (elems a) d) /\
  index_usize a (flat (shape a) c) = Ok (nth (flat (shape a) c) (elems a) d).
Proof.
  intros T d a c W H. split; [exact (at_ok d a c W H)|]. split; [exact (index_coords_ok d a c W H)|].
  apply index_usize_ok. unfold len. rewrite W. now apply flat_lt.
Qed.

(* wrong length or any component out of range: an error value (the operator form rejects by panic) *)
Theorem C02_errors_coord : forall (T : Type) (a : arr T) c, ~ in_range (shape a) c ->
  index_at (shape a) c = Err EParam /\ at_ a c = Err EParam /\ index_coords a c = Panic.
Proof.
  intros T a c H. split; [now apply index_at_err|]. split; [now apply at_err | now apply index_coords_reject].
Qed.

Theorem C02_errors_flat : forall n sh i, n <= i -> index_to_coord n sh i = Err EParam.
Proof. exact index_to_coord_err. Qed.

(* index_at never panics: it is Ok of the Horner position or the parameter error *)
Theorem C02_index_at_total : forall sh c, index_at sh c = Ok (flat sh c) \/ index_at sh c = Err EParam.
Proof. exact index_at_total. Qed.

(* non-vacuity: shape [2;3;4], coordinate [1;2;3] <-> 23 *)
Example C02_nonvacuous :
  in_range [2;3;4] [1;2;3] /\ index_at [2;3;4] [1;2;3] = Ok 23 /\
  index_to_coord 24 [2;3;4] 23 = Ok [1;2;3].
Proof. cbn. repeat split; lia. Qed.

Print Assumptions C02_index_at_horner.
Print Assumptions C02_roundtrip_cf.
Print Assumptions C02_roundtrip_fc.
Print Assumptions C02_row_major.
Print Assumptions C02_last_axis_fastest.
Print Assumptions C02_at.
Print Assumptions C02_errors_coord.
Print Assumptions C02_errors_flat.
Print Assumptions C02_index_at_total.

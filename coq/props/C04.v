(* C04 — two-operand elementwise operations act positionwise on broadcast operands.
   lift2 f = the "both operands stretched" family; zipop f = the "argument stretched to the receiver" family;
   the theorems hold for every scalar function f (so for every operation of the family and every element type). *)
From ArrRs Require Import Index Axis Broadcast Broadcast_proofs Lift Lift_proofs.

Theorem C04_lift2 : forall (T U : Type) (dt : T) (f : T -> T -> U) (a b : arr T),
  wf a -> wf b -> pos_shape (shape a) -> pos_shape (shape b) ->
  is_broadcastable (shape a) (shape b) = Ok tt ->
  exists r fs, lift2 dt f a b = Ok r /\ broadcast_shape (shape a) (shape b) = Ok fs /\ shape r = fs /\ wf r /\
    forall c, in_range fs c ->
      get (f dt dt) r c = f (get dt a (bsrc (shape a) c)) (get dt b (bsrc (shape b) c)).
Proof. exact @lift2_spec. Qed.

Theorem C04_lift2_refuse : forall (T U : Type) (dt : T) (f : T -> T -> U) (a b : arr T),
  existsb dims_clash (combine (rev (shape a)) (rev (shape b))) = true -> lift2 dt f a b = Err EBroadcast.
Proof. exact @lift2_refuse. Qed.

Theorem C04_zipop : forall (T U : Type) (dt : T) (S : Type) (ds : S) (f : T -> S -> U) (a : arr T) (b : arr S),
  wf a -> wf b -> is_broadcastable (shape b) (shape a) = Ok tt ->
  stretchable_rev (rev (shape b)) (rev (shape a)) = true ->
  exists r, zipop ds f a b = Ok r /\ shape r = shape a /\ wf r /\
    forall c, in_range (shape a) c -> get (f dt ds) r c = f (get dt a c) (get ds b (bsrc (shape b) c)).
Proof. exact @zipop_spec. Qed.

(* operations that commute on scalars commute on equally shaped arrays *)
Theorem C04_comm : forall (T U : Type) (dt : T) (f : T -> T -> U) (a b : arr T),
  (forall x y, f x y = f y x) ->
  wf a -> wf b -> pos_shape (shape a) -> shape a = shape b -> lift2 dt f a b = lift2 dt f b a.
Proof. exact @lift2_comm. Qed.

(* the division family refuses a divisor array that contains zero — and only then *)
Theorem C04_div_zero : forall (T U : Type) (dt : T) (is_zero : T -> bool) (f : T -> T -> U) (a b : arr T),
  existsb is_zero (elems b) = true -> guarded_lift2 dt is_zero f a b = Err EParam.
Proof. exact @guarded_lift2_zero. Qed.

Theorem C04_div_nonzero : forall (T U : Type) (dt : T) (is_zero : T -> bool) (f : T -> T -> U) (a b : arr T),
  existsb is_zero (elems b) = false -> guarded_lift2 dt is_zero f a b = lift2 dt f a b.
Proof. exact @guarded_lift2_nonzero. Qed.

Example C04_nonvacuous :
  let a := mk [1;2;3;4;5;6]%Z [2;3] in let b := mk [10;20]%Z [2;1] in
  is_broadcastable (shape a) (shape b) = Ok tt /\ pos_shape (shape a) /\ pos_shape (shape b) /\
  lift2 0%Z Z.add a b = Ok (mk [11;12;13;24;25;26]%Z [2;3]).
Proof. cbn zeta. repeat split; try reflexivity; repeat constructor. Qed.

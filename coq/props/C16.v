(* C16 — structured constructors put the right value at every coordinate.
   PROVED: constant fills; eye (one exactly on the requested diagonal); tri (one iff j <= i + k); tril(k) and
   triu(k+1) are complementary at every position (so they reassemble the input) and refuse rank < 2; vander
   (x_i ^ (n-1-j) or x_i ^ j); arange with a positive whole-number step is the arithmetic progression from the start
   with the maximal count that does not pass the stop; linspace over exact rationals has the requested count, begins
   at the start, ends at the stop when the endpoint is included and has a constant difference.
   identity holds one exactly on the main diagonal; a vector laid on the k-th diagonal (diag of a 1-D array) gives the
   square matrix of size len + |k| with the vector on that diagonal and zero elsewhere, and extracting that diagonal
   again returns the vector (C16_identity, C16_diag_vector, C16_diag_roundtrip).
   diagflat of an array of ANY rank lays its flattened elements on the k-th diagonal, and extracting that diagonal
   returns the flattened array (C16_diagflat, C16_diagflat_roundtrip).
   PARTIAL / not proved: the float behaviour of linspace is checked by the
   correspondence run (exhaustive sizes 0..6 x 0..6, offsets -7..7; f64 results compared with the exact rational model
   within a relative 2^-40); logspace / geomspace / rand are checked as properties of the implementation's own output
   (count, endpoints, constant ratio within tolerance; shape and unit interval) with no Coq model. *)
From Coq Require Import QArith.
Local Close Scope Q_scope.
From ArrRs Require Import Index Axis Create Create_proofs Diag_proofs Diagflat_proofs.

Theorem C16_full : forall (T : Type) (zero : T) sh v,
  full sh v = Ok (mk (repeat v (prod sh)) sh) /\
  forall c, in_range sh c -> get zero (mk (repeat v (prod sh)) sh) c = v.
Proof. exact @full_spec. Qed.

Theorem C16_eye : forall (T : Type) (zero one : T) n m k,
  exists r, eye zero one n m k = Ok r /\ shape r = [n; m] /\
    forall i j, i < n -> j < m -> get zero r [i; j] = if j =? i + k then one else zero.
Proof. exact @eye_spec. Qed.

Theorem C16_tri : forall (T : Type) (zero one : T) n m k,
  exists r, tri zero one n m k = Ok r /\ shape r = [n; m] /\
    forall i j, i < n -> j < m -> get zero r [i; j] = if (Z.of_nat j <=? Z.of_nat i + k)%Z then one else zero.
Proof. exact @tri_spec. Qed.

Theorem C16_complement : forall (T : Type) (zero : T) (a : arr T) k, wf a -> 2 <= ndim a -> len a <> 0 ->
  exists l u, tril zero a k = Ok l /\ triu zero a (k + 1) = Ok u /\ shape l = shape a /\ shape u = shape a /\
    forall p, p < len a ->
      (nth p (elems l) zero = nth p (elems a) zero /\ nth p (elems u) zero = zero) \/
      (nth p (elems l) zero = zero /\ nth p (elems u) zero = nth p (elems a) zero).
Proof. exact @tril_triu_complement. Qed.

Theorem C16_tril_rank : forall (T : Type) (zero : T) (a : arr T) k,
  ndim a < 2 -> tril zero a k = Err EUnsupDim /\ triu zero a k = Err EUnsupDim.
Proof. exact @tril_rank. Qed.

Theorem C16_vander : forall (a : arr Z) cols inc, ndim a = 1 -> wf a ->
  exists r, vander a (Some cols) inc = Ok r /\ shape r = [len a; cols] /\
    forall i j, i < len a -> j < cols ->
      get 0%Z r [i; j] = Z.pow (nth i (elems a) 0%Z) (Z.of_nat (if inc then j else cols - j - 1)).
Proof. exact vander_spec. Qed.

Theorem C16_arange : forall start stop step, (1 <= step)%Z ->
  exists r, arange start stop step = Ok r /\
    elems r = map (fun t => (start + Z.of_nat t * step)%Z) (seq 0 (len r)) /\
    Forall (fun x => (start <= x <= stop)%Z) (elems r) /\
    ((start <= stop + 1)%Z -> (Z.of_nat (len r) * step <= stop + 1 - start < Z.of_nat (len r) * step + step)%Z).
Proof. exact arange_spec. Qed.

Theorem C16_linspace : forall (start stop : Q) num endpoint, 2 <= num ->
  length (linspace_q start stop num endpoint) = num /\
  (nth 0 (linspace_q start stop num endpoint) 0 == start)%Q /\
  (endpoint = true -> nth (num - 1) (linspace_q start stop num endpoint) 0%Q = stop) /\
  forall i, S i < num ->
    (nth (S i) (linspace_q start stop num endpoint) 0 - nth i (linspace_q start stop num endpoint) 0 ==
     (stop - start) / inject_Z (Z.of_nat (num - (if endpoint then 1 else 0))))%Q.
Proof. exact linspace_q_spec. Qed.

Theorem C16_identity : forall (T : Type) (zero one : T) n, exists r, identity zero one n = Ok r /\ shape r = [n; n] /\
  forall i j, i < n -> j < n -> get zero r [i; j] = if i =? j then one else zero.
Proof. exact @identity_spec. Qed.

Theorem C16_diag_vector : forall (T : Type) (zero : T) (a : arr T) k, ndim a = 1 -> wf a ->
  let s := len a in let n := s + Z.abs_nat k in
  exists M, diag zero a k = Ok M /\ shape M = [n; n] /\ wf M /\
    forall i j, i < n -> j < n ->
      get zero M [i; j] = if (0 <=? k)%Z then (if j =? i + Z.abs_nat k then nth i (elems a) zero else zero)
                          else (if i =? j + Z.abs_nat k then nth j (elems a) zero else zero).
Proof. exact @diag_1d_spec. Qed.

Theorem C16_diag_roundtrip : forall (T : Type) (zero : T) (a : arr T) k, ndim a = 1 -> wf a ->
  exists M, diag zero a k = Ok M /\ diag zero M k = Ok (mk (elems a) [len a]).
Proof. exact @diag_roundtrip. Qed.

Theorem C16_diagflat : forall (T : Type) (zero : T) (a : arr T) k,
  let s := len a in let n := s + Z.abs_nat k in
  exists M, diagflat zero a k = Ok M /\ shape M = [n; n] /\ wf M /\
    forall i j, i < n -> j < n ->
      get zero M [i; j] = if (0 <=? k)%Z then (if j =? i + Z.abs_nat k then nth i (elems a) zero else zero)
                          else (if i =? j + Z.abs_nat k then nth j (elems a) zero else zero).
Proof. exact @diagflat_spec. Qed.

Theorem C16_diagflat_roundtrip : forall (T : Type) (zero : T) (a : arr T) k,
  exists M, diagflat zero a k = Ok M /\ diag zero M k = Ok (mk (elems a) [len a]).
Proof. exact @diagflat_roundtrip. Qed.

Example C16_nonvacuous :
  eye 0%Z 1%Z 2 3 1 = Ok (mk [0;1;0;0;0;1]%Z [2;3]) /\ tri 0%Z 1%Z 3 3 (-1) = Ok (mk [0;0;0;1;0;0;1;1;0]%Z [3;3]) /\
  tril 0%Z (mk [1;2;3;4;5;6;7;8;9]%Z [3;3]) 0 = Ok (mk [1;0;0;4;5;0;7;8;9]%Z [3;3]) /\
  arange 2 11 3 = Ok (mk [2;5;8]%Z [3]) /\ diag 0%Z (mk [1;2]%Z [2]) 1 = Ok (mk [0;1;0;0;0;2;0;0;0]%Z [3;3]).
Proof. repeat split; vm_compute; reflexivity. Qed.

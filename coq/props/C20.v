(* C20 — operator overloads equal the native scalar operators at every position.
   f is the native scalar operator (any element type); Panic models the operator's assert_eq! rejection. *)
From ArrRs Require Import Index Axis Lift Lift_proofs.

Theorem C20_binop : forall (T : Type) (f : T -> T -> T) (a b : arr T),
  wf a -> wf b -> shape a = shape b ->
  binop f a b = Ok (mk (map2 f (elems a) (elems b)) (shape a)) /\
  wf (mk (map2 f (elems a) (elems b)) (shape a)).
Proof. exact @binop_ok. Qed.

Theorem C20_binop_positionwise : forall (T : Type) (f : T -> T -> T) (d : T) (a b : arr T) c,
  wf a -> wf b -> shape a = shape b -> in_range (shape a) c ->
  get (f d d) (mk (map2 f (elems a) (elems b)) (shape a)) c = f (get d a c) (get d b c).
Proof. exact @binop_get. Qed.

(* differently shaped operands are rejected rather than combined *)
Theorem C20_binop_reject : forall (T : Type) (f : T -> T -> T) (a b : arr T),
  shape a <> shape b -> binop f a b = Panic.
Proof. exact @binop_reject. Qed.

Theorem C20_scalar : forall (T : Type) (f : T -> T -> T) (a : arr T) s,
  wf a -> binop_scalar f a s = Ok (mk (map (fun x => f x s) (elems a)) (shape a)).
Proof. exact @binop_scalar_ok. Qed.

(* each compound-assignment form leaves the receiver equal to what the plain operator returns *)
Theorem C20_assign : forall (T : Type) (f : T -> T -> T) (a b : arr T),
  wf a -> wf b -> shape a = shape b -> binop_assign f a b = binop f a b.
Proof. exact @binop_assign_eq. Qed.

Theorem C20_assign_scalar : forall (T : Type) (f : T -> T -> T) (a : arr T) s,
  wf a -> Ok (binop_assign_scalar f a s) = binop_scalar f a s.
Proof. exact @binop_assign_scalar_eq. Qed.

Theorem C20_neg_not : forall (T : Type) (g : T -> T) (a : arr T),
  wf a -> unop g a = Ok (mk (map g (elems a)) (shape a)).
Proof. exact @unop_ok. Qed.

Theorem C20_bitop : forall (T : Type) (f : T -> T -> T) (a b : arr T),
  wf a -> wf b -> shape a = shape b ->
  bitop f a b = Ok (mk (map2 f (elems a) (elems b)) (shape a)) /\ wf (mk (map2 f (elems a) (elems b)) (shape a)).
Proof. exact @bitop_ok. Qed.

Theorem C20_bitop_reject : forall (T : Type) (f : T -> T -> T) (a b : arr T),
  shape a <> shape b -> bitop f a b = Panic.
Proof. exact @bitop_reject. Qed.

(* two equally shaped arrays compare equal exactly when all their elements do *)
Theorem C20_eq : forall (T : Type) (eqb : T -> T -> bool) (a b : arr T),
  (forall x y, eqb x y = true <-> x = y) -> wf a -> wf b -> shape a = shape b ->
  (arr_eq eqb a b = Ok true <-> elems a = elems b).
Proof. exact @arr_eq_spec. Qed.

Theorem C20_eq_reject : forall (T : Type) (eqb : T -> T -> bool) (a b : arr T),
  shape a <> shape b -> arr_eq eqb a b = Panic.
Proof. exact @arr_eq_reject. Qed.

(* ordering is lexicographic on the flat element sequences: the verdict is that of the first differing position *)
Theorem C20_ord : forall (T : Type) (cmp : T -> T -> option comparison) l1 l2 pre x y t1 t2,
  l1 = pre ++ x :: t1 -> l2 = pre ++ y :: t2 -> (forall z, In z pre -> cmp z z = Some Eq) -> cmp x y <> Some Eq ->
  lex_cmp cmp l1 l2 = cmp x y.
Proof. exact @lex_cmp_spec. Qed.

Theorem C20_ord_eq : forall (T : Type) (cmp : T -> T -> option comparison) l,
  (forall z, In z l -> cmp z z = Some Eq) -> lex_cmp cmp l l = Some Eq.
Proof. exact @lex_cmp_eq. Qed.

Example C20_nonvacuous :
  binop Z.mul (mk [1;2;3;4]%Z [2;2]) (mk [5;6;7;8]%Z [2;2]) = Ok (mk [5;12;21;32]%Z [2;2]) /\
  binop Z.mul (mk [1;2;3;4]%Z [2;2]) (mk [5;6;7;8]%Z [4]) = Panic /\
  lex_cmp (fun x y => Some (x ?= y)%Z) [1;2;9]%Z [1;3;0]%Z = Some Lt.
Proof. repeat split; reflexivity. Qed.

(* C10 — all sort kinds give the same ordered rearrangement; order queries agree.
   ltb is any order with: ltb x y = true -> not (ltb y x) [lt_le], and "not greater" transitive [le_trans]
   (a strict weak order: integers, strings, floats without NaN); le x y := ltb y x = false.
   FULL for all four kinds — merge sort, quick sort (the default), heap sort and the "stable" (tim) sort: for lists of
   every length each terminates within its fuel and returns an ordered permutation of the input (C10_merge_sort,
   C10_quick_sort, C10_heap_sort, C10_tim_sort, C10_every_kind); hence under an antisymmetric order all four return the
   same list (C10_kinds_agree) and sorting is idempotent.  The heap sort proof is the sift-down invariant (every node
   dominates its children) through the build and extraction loops; the tim sort proof is: insertion sort orders every
   run of min_run elements, each merge pass turns ordered runs of length s into ordered runs of length 2 s.
   ALONG AN AXIS (via the lane theorem of C08): sorting keeps the shape and every lane of the result is the ordered
   rearrangement of the corresponding lane of the input, for every kind (C10_sort_axis, C10_sort_axis_all_kinds), and the
   result does not depend on the kind (C10_sort_kind_independent).  ORDER QUERIES: unique returns the distinct values in
   strictly increasing order (C10_unique); argmax / argmin return the first position of a largest / smallest element
   (C10_arg_extreme); argsort, for any of the four kinds, assigns every element a position of the sorted lane holding
   that element, the assignment is a duplicate-free list of positions (a permutation), and equal elements are ranked in
   order of appearance (C10_argsort).  ALONG AN AXIS the index form keeps the shape and every lane of the result is the
   rank assignment of the corresponding lane of the input (C10_argsort_axis: the lane theorem with argsort as the body;
   C10_argsort then characterises each lane); argmax / argmin along an axis are the instances of C08_index_reduce_axis.
   UNIQUE ALONG AN AXIS (C10_unique_axis): when every lane has the same number m of distinct values the result has length
   m on the axis and every lane is the sorted list of the distinct values of the corresponding input lane; lanes with
   different numbers of distinct values are refused (C10_unique_axis_ragged — repair F29, see C08_along_ragged). *)
From Coq Require Import Permutation Sorted.
From ArrRs Require Import Index Axis Axis_proofs Broadcast_proofs Reduce Along_proofs Sort Sort_proofs Along_uses Order_proofs Argsort_proofs Timsort_proofs Heapsort_proofs Sortkinds_proofs Argsort_axis Along_general.

Theorem C10_merge_sort : forall (T : Type) (ltb : T -> T -> bool),
  (forall x y, ltb x y = true -> le ltb x y) -> (forall x y z, le ltb x y -> le ltb y z -> le ltb x z) ->
  forall l, exists r, merge_sort ltb l = Ok r /\ sorted ltb r /\ Permutation l r.
Proof. exact @merge_sort_spec. Qed.

Theorem C10_quick_sort : forall (T : Type) (ltb : T -> T -> bool),
  (forall x y, ltb x y = true -> le ltb x y) -> (forall x y z, le ltb x y -> le ltb y z -> le ltb x z) ->
  forall l, exists r, quick_sort ltb l = Ok r /\ sorted ltb r /\ Permutation l r.
Proof. exact @quick_sort_spec. Qed.

(* under a total order the ordered rearrangement is unique, so the two kinds return the same list *)
Theorem C10_agree_merge_quick : forall (T : Type) (ltb : T -> T -> bool),
  (forall x y, ltb x y = true -> le ltb x y) -> (forall x y z, le ltb x y -> le ltb y z -> le ltb x z) ->
  (forall x y, le ltb x y -> le ltb y x -> x = y) ->
  forall l r1 r2, merge_sort ltb l = Ok r1 -> quick_sort ltb l = Ok r2 -> r1 = r2.
Proof. exact @merge_quick_agree. Qed.

Theorem C10_idempotent : forall (T : Type) (ltb : T -> T -> bool),
  (forall x y, ltb x y = true -> le ltb x y) -> (forall x y z, le ltb x y -> le ltb y z -> le ltb x z) ->
  (forall x y, le ltb x y -> le ltb y x -> x = y) ->
  forall l r, (quick_sort ltb l = Ok r -> quick_sort ltb r = Ok r) /\ (merge_sort ltb l = Ok r -> merge_sort ltb r = Ok r).
Proof. intros T ltb H1 H2 H3 l r. split; [now apply quick_sort_idempotent | now apply merge_sort_idempotent]. Qed.

Theorem C10_heap_perm_partial : forall (T : Type) (ltb : T -> T -> bool) (d : T) l,
  exists r, heap_sort ltb d l = Ok r /\ Permutation l r.
Proof. exact @heap_sort_perm. Qed.

Theorem C10_tim_perm_partial : forall (T : Type) (ltb : T -> T -> bool) (d : T) l,
  exists r, tim_sort ltb d l = Ok r /\ Permutation l r.
Proof. exact @tim_sort_perm. Qed.

(* sorting along an axis sorts every lane *)
Theorem C10_sort_axis : forall (T : Type) (ltb : T -> T -> bool) (d : T),
  (forall x y, ltb x y = true -> le ltb x y) -> (forall x y z, le ltb x y -> le ltb y z -> le ltb x z) ->
  forall (a : arr T) z k,
  wf a -> pos_shape (shape a) -> (Z.of_nat (ndim a) < two64)%Z -> axis_ok (ndim a) z ->
  let ax := norm_nat (ndim a) z in
  exists R, sort_arr ltb d a (Some z) (Ok k) = Ok R /\ wf R /\ shape R = shape a /\
    forall c, in_range (shape a) c ->
      let ln := elems (lane d a ax (remove_nth c ax)) in
      get d R c = nth (nth ax c 0) (sorted_of ltb d k ln) d /\ Permutation ln (sorted_of ltb d k ln) /\
      (k = Quicksort \/ k = Mergesort -> sorted ltb (sorted_of ltb d k ln)).
Proof. exact @sort_axis_spec. Qed.

Theorem C10_sorted_of_def : forall (T : Type) (ltb : T -> T -> bool) (d : T),
  (forall x y, ltb x y = true -> le ltb x y) -> (forall x y z, le ltb x y -> le ltb y z -> le ltb x z) ->
  forall k l, sort_list ltb d k l = Ok (sorted_of ltb d k l).
Proof. intros T ltb d H1 H2 k l. exact (proj1 (sorted_of_spec ltb d H1 H2 k l)). Qed.

(* order queries, for a total order with decidable equality *)
Theorem C10_unique : forall (T : Type) (ltb eqb : T -> T -> bool),
  (forall x y, ltb x y = true -> le ltb x y) -> (forall x y z, le ltb x y -> le ltb y z -> le ltb x z) ->
  (forall x y, le ltb x y -> le ltb y x -> x = y) -> (forall x y, eqb x y = true <-> x = y) ->
  forall a : arr T, exists r, unique1 ltb eqb a = Ok r /\ shape r = [length (elems r)] /\
    StronglySorted (slt ltb) (elems r) /\ (forall y, In y (elems r) <-> In y (elems a)) /\ NoDup (elems r).
Proof. exact @unique1_spec. Qed.

Theorem C10_arg_extreme : forall (T : Type) (ltb eqb : T -> T -> bool) (d : T),
  (forall x y, ltb x y = true -> le ltb x y) -> (forall x y z, le ltb x y -> le ltb y z -> le ltb x z) ->
  (forall x y, eqb x y = true <-> x = y) ->
  forall max (l : list T), l <> [] ->
  exists i, arg_extreme1 ltb eqb d max l = Ok i /\ i < length l /\
    (forall y, In y l -> if max then le ltb y (nth i l d) else le ltb (nth i l d) y) /\
    (forall j, j < i -> nth j l d <> nth i l d).
Proof. exact @arg_extreme1_spec. Qed.

Theorem C10_argsort : forall (T : Type) (ltb eqb : T -> T -> bool) (d : T),
  (forall x y, eqb x y = true <-> x = y) ->
  (forall x y, ltb x y = true -> le ltb x y) -> (forall x y z, le ltb x y -> le ltb y z -> le ltb x z) ->
  forall k (a : arr T),
  exists s r, sort_list ltb d k (elems a) = Ok s /\ Permutation (elems a) s /\
    (k = Quicksort \/ k = Mergesort -> sorted ltb s) /\
    argsort1 ltb eqb d k a = Ok r /\ shape r = [len a] /\ length (elems r) = len a /\
    (forall i, i < len a -> nth i (elems r) 0 < len a /\ nth (nth i (elems r) 0) s d = nth i (elems a) d) /\
    NoDup (elems r) /\
    (forall i j, i < j < len a -> nth i (elems a) d = nth j (elems a) d -> nth i (elems r) 0 < nth j (elems r) 0).
Proof. exact @argsort1_spec. Qed.

(* heap sort and the stable (tim) sort: ordered permutation, every length *)
Theorem C10_heap_sort : forall (T : Type) (ltb : T -> T -> bool) (d : T),
  (forall x y, ltb x y = true -> le ltb x y) -> (forall x y z, le ltb x y -> le ltb y z -> le ltb x z) ->
  forall l, exists r, heap_sort ltb d l = Ok r /\ sorted ltb r /\ Permutation l r.
Proof. exact @heap_sort_spec. Qed.

Theorem C10_tim_sort : forall (T : Type) (ltb : T -> T -> bool) (d : T),
  (forall x y, ltb x y = true -> le ltb x y) -> (forall x y z, le ltb x y -> le ltb y z -> le ltb x z) ->
  forall l, exists r, tim_sort ltb d l = Ok r /\ sorted ltb r /\ Permutation l r.
Proof. exact @tim_sort_spec. Qed.

Theorem C10_every_kind : forall (T : Type) (ltb : T -> T -> bool) (d : T),
  (forall x y, ltb x y = true -> le ltb x y) -> (forall x y z, le ltb x y -> le ltb y z -> le ltb x z) ->
  forall k l, exists r, sort_list ltb d k l = Ok r /\ sorted ltb r /\ Permutation l r.
Proof. exact @sort_list_spec. Qed.

(* ALL FOUR KINDS RETURN THE SAME LIST *)
Theorem C10_kinds_agree : forall (T : Type) (ltb : T -> T -> bool) (d : T),
  (forall x y, ltb x y = true -> le ltb x y) -> (forall x y z, le ltb x y -> le ltb y z -> le ltb x z) ->
  (forall x y, le ltb x y -> le ltb y x -> x = y) ->
  forall k1 k2 l, sort_list ltb d k1 l = sort_list ltb d k2 l.
Proof. exact @sort_kinds_agree. Qed.

Theorem C10_sort_axis_all_kinds : forall (T : Type) (ltb : T -> T -> bool) (d : T),
  (forall x y, ltb x y = true -> le ltb x y) -> (forall x y z, le ltb x y -> le ltb y z -> le ltb x z) ->
  forall (a : arr T) z k,
  wf a -> pos_shape (shape a) -> (Z.of_nat (ndim a) < two64)%Z -> axis_ok (ndim a) z ->
  let ax := norm_nat (ndim a) z in
  exists R, sort_arr ltb d a (Some z) (Ok k) = Ok R /\ wf R /\ shape R = shape a /\
    forall c, in_range (shape a) c ->
      let ln := elems (lane d a ax (remove_nth c ax)) in
      get d R c = nth (nth ax c 0) (sorted_of ltb d k ln) d /\ Permutation ln (sorted_of ltb d k ln) /\
      sorted ltb (sorted_of ltb d k ln).
Proof. exact @sort_axis_all_kinds. Qed.

Theorem C10_sort_kind_independent : forall (T : Type) (ltb : T -> T -> bool) (d : T),
  (forall x y, ltb x y = true -> le ltb x y) -> (forall x y z, le ltb x y -> le ltb y z -> le ltb x z) ->
  (forall x y, le ltb x y -> le ltb y x -> x = y) ->
  forall (a : arr T) k1 k2,
  sort_arr ltb d a None (Ok k1) = sort_arr ltb d a None (Ok k2) /\
  forall z, wf a -> pos_shape (shape a) -> (Z.of_nat (ndim a) < two64)%Z -> axis_ok (ndim a) z ->
    sort_arr ltb d a (Some z) (Ok k1) = sort_arr ltb d a (Some z) (Ok k2).
Proof.
  intros T ltb d H1 H2 H3 a k1 k2. split; [now apply sort_flat_kind_independent|].
  intros z. now apply sort_axis_kind_independent.
Qed.

(* Z satisfies the order hypotheses (non-vacuity of the section assumptions) and an 8-element instance *)
Example C10_nonvacuous :
  (forall x y, Z.ltb x y = true -> le Z.ltb x y) /\ (forall x y z, le Z.ltb x y -> le Z.ltb y z -> le Z.ltb x z) /\
  (forall x y, le Z.ltb x y -> le Z.ltb y x -> x = y) /\
  merge_sort Z.ltb [3;1;2;1;0;7;3;3]%Z = Ok [0;1;1;2;3;3;3;7]%Z /\
  tim_sort Z.ltb 0%Z [3;1;2;1;0;7;3;3]%Z = Ok [0;1;1;2;3;3;3;7]%Z.
Proof.
  unfold le. repeat split; try reflexivity.
  - intros x y H. apply Z.ltb_lt in H. apply Z.ltb_ge. lia.
  - intros x y z H1 H2. apply Z.ltb_ge in H1, H2. apply Z.ltb_ge. lia.
  - intros x y H1 H2. apply Z.ltb_ge in H1, H2. lia.
Qed.

Theorem C10_argsort_axis : forall (T : Type) (ltb eqb : T -> T -> bool) (d : T),
  (forall x y, eqb x y = true <-> x = y) ->
  (forall x y, ltb x y = true -> le ltb x y) -> (forall x y z, le ltb x y -> le ltb y z -> le ltb x z) ->
  forall (a : arr T) z k,
  wf a -> pos_shape (shape a) -> (Z.of_nat (ndim a) < two64)%Z -> axis_ok (ndim a) z ->
  let ax := norm_nat (ndim a) z in
  exists R, argsort_arr ltb eqb d a (Some z) (Ok k) = Ok R /\ wf R /\ shape R = shape a /\
    forall c, in_range (shape a) c ->
      let ln := lane d a ax (remove_nth c ax) in
      exists ranks, argsort1 ltb eqb d k ln = Ok ranks /\ get 0 R c = nth (nth ax c 0) (elems ranks) 0.
Proof.
  intros T ltb eqb d H1 H2 H3 a z k W P B Hz ax.
  destruct (argsort_axis_spec ltb eqb d H1 H2 H3 a z k W P B Hz) as (R & E & WR & SR & G).
  exists R. repeat split; auto. intros c Hc ln. destruct (G c Hc) as [E1 G1]. eexists. split; [exact E1 | exact G1].
Qed.

Example C10_argsort_axis_nonvacuous :
  argsort_arr Z.ltb Z.eqb 0%Z (mk [3;1;2; 9;7;8]%Z [2;3]) (Some 1%Z) (Ok Quicksort) = Ok (mk [2;0;1;2;0;1] [2;3]).
Proof. vm_compute. reflexivity. Qed.

Theorem C10_unique_axis : forall (T : Type) (ltb eqb : T -> T -> bool) (d : T) (a : arr T) z m,
  wf a -> pos_shape (shape a) -> (Z.of_nat (ndim a) < two64)%Z -> axis_ok (ndim a) z ->
  let ax := norm_nat (ndim a) z in
  (forall rest, in_range (remove_nth (shape a) ax) rest -> length (dedup eqb (std_sort ltb (elems (lane d a ax rest)))) = m) ->
  exists R, unique_arr ltb eqb d a (Some z) = Ok R /\ wf R /\ shape R = upd (shape a) ax m /\
    forall c, in_range (shape R) c ->
      get d R c = nth (nth ax c 0) (dedup eqb (std_sort ltb (elems (lane d a ax (remove_nth c ax))))) d.
Proof. exact @unique_axis_spec. Qed.

Theorem C10_unique_axis_ragged : forall (T : Type) (ltb eqb : T -> T -> bool) (d : T) (a : arr T) z r1 r2,
  wf a -> pos_shape (shape a) -> (Z.of_nat (ndim a) < two64)%Z -> axis_ok (ndim a) z ->
  let ax := norm_nat (ndim a) z in
  in_range (remove_nth (shape a) ax) r1 -> in_range (remove_nth (shape a) ax) r2 ->
  length (dedup eqb (std_sort ltb (elems (lane d a ax r1)))) <> length (dedup eqb (std_sort ltb (elems (lane d a ax r2)))) ->
  unique_arr ltb eqb d a (Some z) = Err EShapeLen.
Proof. exact @unique_axis_ragged. Qed.

Example C10_unique_axis_nonvacuous :
  unique_arr Z.ltb Z.eqb 0%Z (mk [1;2;2; 3;3;4; 6;5;6]%Z [3;3]) (Some 1%Z) = Ok (mk [1;2; 3;4; 5;6]%Z [3;2]) /\
  unique_arr Z.ltb Z.eqb 0%Z (mk [1;2;2; 3;3;3; 4;5;6]%Z [3;3]) (Some 1%Z) = Err EShapeLen.
Proof. split; vm_compute; reflexivity. Qed.

(* C01 — shape and element count never disagree on any result of any operation chain.
   PROVED: new / create / reshape accept exactly the fitting element lists; every call of the FULL program language
   (ProgFull.v: the constructors, the reshaping family and axis permutations of Prog.v plus broadcasting, flip / roll /
   rot90, delete / insert / repeat / trim, append / concatenate / the five stacks, the six splits, sort / unique (flat and
   along an axis), any lane operation through apply_along_axis, reductions and scans with arbitrary bodies, elementwise
   map / two-operand lifting with arbitrary scalar functions, tril / triu / diag / diagflat / eye / tri / identity /
   full, the products vdot / matmul / outer / inner / dot for any addition and multiplication, broadcast_arrays) returns only
   well-formed arrays, single results and list members alike; hence every array reachable by any finite program over
   these operations from well-formed inputs is well formed (C01_full_run_wf); metadata agree with the shape.
   NOT IN THE LANGUAGE (their results are covered by the universal monitor of the correspondence run only): the
   heterogeneous results (pairs from broadcast / zip, index arrays from argsort / argmax / count_nonzero, bit and
   string operations, solve / det / qr), whose well-formedness lemmas exist separately where stated. *)
From ArrRs Require Import Index Axis Reshape_proofs Prog Prog_proofs Sort ProgFull ProgFull_proofs.

(* asking for an array whose element list does not fit the requested shape is refused with an error,
   never answered with an inconsistent array; otherwise the result is exactly that array *)
Theorem C01_new_iff : forall (T : Type) (es : list T) sh a,
  new es sh = Ok a <-> (length es = prod sh /\ a = mk es sh).
Proof. exact @new_iff. Qed.

Theorem C01_new_refuse : forall (T : Type) (es : list T) sh,
  length es <> prod sh -> new es sh = Err EShapeLen.
Proof. exact @new_refuse. Qed.

Theorem C01_new_total : forall (T : Type) (es : list T) sh,
  new es sh = Ok (mk es sh) \/ new es sh = Err EShapeLen.
Proof. exact @new_total. Qed.

Theorem C01_reshape_refuse : forall (T : Type) (a : arr T) sh,
  prod sh <> len a -> reshape a sh = Err EShapeLen.
Proof. exact @reshape_refuse. Qed.

(* every modelled operation, applied to well-formed operands from the environment, returns only
   well-formed arrays (single results, list members, pair members) *)
Theorem C01_op_wf : forall (T : Type) (dflt : T) env (c : opcall) rs,
  Forall wf env -> run_call dflt env c = Ok rs -> Forall wf rs.
Proof. exact @run_call_wf. Qed.

(* … hence every array reachable by any finite program over those operations is well formed *)
Theorem C01_run_wf : forall (T : Type) (dflt : T) (p : list opcall) env,
  Forall wf env -> Forall wf (run dflt p env).
Proof. exact @run_wf. Qed.

(* the full language: every modelled array -> array(s) operation *)
Theorem C01_full_op_wf : forall (T : Type) (dflt zero one : T) (is_zero : T -> bool) (ltb eqb : T -> T -> bool) env c rs,
  Forall wf env -> run_fcall dflt zero one is_zero ltb eqb env c = Ok rs -> Forall wf rs.
Proof. exact @run_fcall_wf. Qed.

Theorem C01_full_run_wf : forall (T : Type) (dflt zero one : T) (is_zero : T -> bool) (ltb eqb : T -> T -> bool) p env,
  Forall wf env -> Forall wf (frun dflt zero one is_zero ltb eqb p env).
Proof. exact @frun_wf. Qed.

(* reported length, dimension count and emptiness agree with the shape and the element list *)
Theorem C01_meta : forall (T : Type) (a : arr T), wf a ->
  len a = length (elems a) /\ len a = prod (shape a) /\ ndim a = length (shape a) /\
  (is_empty a = true <-> len a = 0).
Proof. exact @meta_agree. Qed.

(* non-vacuity: a six-call program mixing constructors, reshape, transpose, squeeze *)
Example C01_nonvacuous :
  let p := [CCreate (map Z.of_nat (seq 0 12)) [2;6] (Some 3); CReshape 0 [2;3;2;1]; CTranspose 1 (Some [3;1;0;2]%Z);
            CSqueeze 2 None; CEmpty; CRavel 3] in
  length (run 0%Z p []) = 6 /\ Forall wf (run 0%Z p []) /\
  map shape (run 0%Z p []) = [[1;2;6]; [2;3;2;1]; [1;3;2;2]; [3;2;2]; [0]; [12]].
Proof.
  cbn zeta. split; [vm_compute; reflexivity|]. split; [apply run_wf; constructor | vm_compute; reflexivity].
Qed.

(* non-vacuity of the full language: constructors, a split, a join of the pieces in exchanged order, flip, sort,
   a lane reduction, a repeat — nine calls, twelve arrays *)
Example C01_full_nonvacuous :
  let p := [FBase (CCreate (map Z.of_nat (seq 0 12)) [2;6] None); FArraySplit 0 4 (Some 1);
            FConcat [4;1;3;2] (Some 1); FFlip 5 (Some [(-1)%Z]); FSort 6 (Some 1%Z) (Ok Heapsort);
            FReduce (fun l => Ok (fold_left Z.add l 0%Z)) 7 (Some 0%Z); FRepeat 8 [2] (Some 0);
            FTril 0 1%Z; FStack [0;10] (Some 2)] in
  let env := frun 0%Z 0%Z 1%Z (Z.eqb 0) Z.ltb Z.eqb p [] in
  map shape env = [[2;6]; [2;2]; [2;2]; [2;1]; [2;1]; [2;6]; [2;6]; [2;6]; [6]; [12]; [2;6]; [2;6;2]] /\ Forall wf env.
Proof. cbn zeta. split; [vm_compute; reflexivity | apply frun_wf; constructor]. Qed.

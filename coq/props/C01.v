(* C01 — shape and element count never disagree on any result of any operation chain. *)
From ArrRs Require Import Index Axis Reshape_proofs Prog Prog_proofs.

(* asking for an array whose element list does not fit the requested shape is refused with an error,
   never answered with an inconsistent array; otherwise the result is exactly that array *)
Theorem C01_new_iff : forall (T : Type) (es : list T) sh a,
  new es sh = Ok a <-> (length es = prod sh /\ a = mk es sh).
Proof. exact @new_iff. Qed.

Theorem C01_new_refuse : forall (T : Type) (es : list T) sh,
  length es <> prod sh -> new es sh = Err EShapeLen.
Proof. exact @new_refuse. Qed.

Theorem C01_new_total : forall (T : Type) (es : list T) sh,
  new es sh = Ok (mk es sh) \/ new es sh = Err EShapeLen.
Proof. exact @new_total. Qed.

Theorem C01_reshape_refuse : forall (T : Type) (a : arr T) sh,
  prod sh <> len a -> reshape a sh = Err EShapeLen.
Proof. exact @reshape_refuse. Qed.

(* every modelled operation, applied to well-formed operands from the environment, returns only
   well-formed arrays (single results, list members, pair members) *)
Theorem C01_op_wf : forall (T : Type) (dflt : T) env (c : opcall) rs,
  Forall wf env -> run_call dflt env c = Ok rs -> Forall wf rs.
Proof. exact @run_call_wf. Qed.

(* … hence every array reachable by any finite program over those operations is well formed *)
Theorem C01_run_wf : forall (T : Type) (dflt : T) (p : list opcall) env,
  Forall wf env -> Forall wf (run dflt p env).
Proof. exact @run_wf. Qed.

(* reported length, dimension count and emptiness agree with the shape and the element list *)
Theorem C01_meta : forall (T : Type) (a : arr T), wf a ->
  len a = length (elems a) /\ len a = prod (shape a) /\ ndim a = length (shape a) /\
  (is_empty a = true <-> len a = 0).
Proof. exact @meta_agree. Qed.

(* non-vacuity: a six-call program mixing constructors, reshape, transpose, squeeze *)
Example C01_nonvacuous :
  let p := [CCreate (map Z.of_nat (seq 0 12)) [2;6] (Some 3); CReshape 0 [2;3;2;1]; CTranspose 1 (Some [3;1;0;2]%Z);
            CSqueeze 2 None; CEmpty; CRavel 3] in
  length (run 0%Z p []) = 6 /\ Forall wf (run 0%Z p []) /\
  map shape (run 0%Z p []) = [[1;2;6]; [2;3;2;1]; [1;3;2;2]; [3;2;2]; [0]; [12]].
Proof.
  cbn zeta. split; [vm_compute; reflexivity|]. split; [apply run_wf; constructor | vm_compute; reflexivity].
Qed.

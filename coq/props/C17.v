(* C17 — string-array operations apply the per-string function at every position.
   Strings are byte lists (ASCII).  PROVED: every two-string operation is the positionwise function on the broadcast of
   its operands and every one-string operation maps the function over the array (lifting); splitting from the left or
   from the right and re-joining with the separator gives back the original string; partitioning from the left or the
   right concatenates back to the original and reports the first occurrence (or no occurrence); padding to a larger
   width has exactly that width with the original as prefix / suffix / centred infix (and truncates for a smaller width);
   the six comparisons are the byte-wise lexicographic order of the strings with trailing spaces removed (less, greater,
   and their Boolean combinations; equality iff neither is less).
   PARTIAL: the Gallina definitions of Rust's str primitives (find, rfind, split, splitn, replace, replacen,
   match_indices, case maps, char classes) are modelled, their agreement with std on ASCII is checked by the
   correspondence run on every operation.  FURTHER LAWS PROVED: stripping removes exactly a maximal prefix / suffix of
   characters of the set (lstrip, rstrip, strip: a = pre ++ stripped ++ suf with pre, suf inside the set and the
   stripped string neither starting nor ending inside it); the occurrence count is the number of split pieces minus
   one; upper / lower keep the length, are idempotent, upper leaves no lower-case letter and changes nothing else;
   swapcase is an involution.  REPLACE (C17_replace): replacing the non-overlapping occurrences of a non-empty `old`
   from left to right, at most `count` of them, is splitting on `old` into at most count + 1 pieces and joining the
   pieces with `new`; hence replacing a pattern by itself, or zero occurrences, changes nothing.  ZFILL / TRANSLATE
   (C17_zfill, C17_translate): zfill inserts zeros after an optional leading minus sign up to the width and never
   shortens; translate maps every character through the table.  The class predicates are their definitions. *)
From ArrRs Require Import Index Axis Broadcast Broadcast_proofs Str Str_proofs Strlaws_proofs Replace_proofs Strlaws2.

Theorem C17_lift2 : forall (U : Type) (f : str -> str -> U) (a b : arr str),
  wf a -> wf b -> pos_shape (shape a) -> pos_shape (shape b) -> is_broadcastable (shape a) (shape b) = Ok tt ->
  exists r fs, str_lift2 f a b = Ok r /\ broadcast_shape (shape a) (shape b) = Ok fs /\ shape r = fs /\ wf r /\
    forall c, in_range fs c -> get (f [] []) r c = f (get [] a (bsrc (shape a) c)) (get [] b (bsrc (shape b) c)).
Proof. exact @str_lift2_spec. Qed.

Theorem C17_map : forall (U : Type) (f : str -> U) (a : arr str), wf a ->
  str_map f a = Ok (mk (map f (elems a)) (shape a)).
Proof. exact @str_map_spec. Qed.

Theorem C17_split_join : forall s sep, sep <> [] -> join_with sep (split_str s sep None) = s.
Proof. exact split_join. Qed.

Theorem C17_rsplit_join : forall s sep, sep <> [] -> join_with sep (rsplit_str s sep None) = s.
Proof. exact rsplit_join. Qed.

Theorem C17_partition : forall a sep, concat (s_partition a sep) = a /\ concat (s_rpartition a sep) = a.
Proof. exact partition_concat. Qed.

Theorem C17_partition_first : forall a sep b m r, s_partition a sep = [b; m; r] ->
  (m = sep /\ find a sep = Some (length b)) \/ (m = [] /\ r = [] /\ b = a /\ find a sep = None).
Proof. exact partition_first. Qed.

Theorem C17_pad : forall a width fill, length a < width ->
  length (s_ljust a width fill) = width /\ length (s_rjust a width fill) = width /\ length (s_center a width fill) = width /\
  s_ljust a width fill = a ++ repeat fill (width - length a) /\
  s_rjust a width fill = repeat fill (width - length a) ++ a /\
  exists l r, s_center a width fill = repeat fill l ++ a ++ repeat fill r /\ l + r = width - length a /\ (l = r \/ l = S r).
Proof. exact pad_spec. Qed.

Theorem C17_pad_truncate : forall a width fill, width <= length a ->
  s_ljust a width fill = firstn width a /\ s_rjust a width fill = firstn width a /\ s_center a width fill = firstn width a.
Proof. exact pad_truncate. Qed.

Theorem C17_cmp : forall a b,
  s_less a b = lex_ltb (trail a) (trail b) /\ s_greater a b = lex_ltb (trail b) (trail a) /\
  s_less_equal a b = negb (s_greater a b) /\ s_greater_equal a b = negb (s_less a b) /\
  s_not_equal a b = negb (s_equal a b) /\
  s_equal a b = negb (s_less a b) && negb (s_greater a b).
Proof. exact compare_spec. Qed.

Theorem C17_strip : forall a chars : str,
  exists pre suf, a = pre ++ s_strip a chars ++ suf /\ forallb (in_set chars) pre = true /\ forallb (in_set chars) suf = true /\
    Edit_proofs.starts_without (in_set chars) (s_strip a chars) /\ Edit_proofs.starts_without (in_set chars) (rev (s_strip a chars)).
Proof. exact strip_spec. Qed.

Theorem C17_lstrip : forall a chars : str,
  exists pre, a = pre ++ s_lstrip a chars /\ forallb (in_set chars) pre = true /\ Edit_proofs.starts_without (in_set chars) (s_lstrip a chars).
Proof. exact lstrip_spec. Qed.

Theorem C17_rstrip : forall a chars : str,
  exists suf, a = s_rstrip a chars ++ suf /\ forallb (in_set chars) suf = true /\ Edit_proofs.starts_without (in_set chars) (rev (s_rstrip a chars)).
Proof. exact rstrip_spec. Qed.

Theorem C17_count : forall s sub : str, sub <> [] -> S (count_str s sub) = length (split_str s sub None).
Proof. exact count_is_pieces_minus_one. Qed.

Theorem C17_case_maps : forall a : str,
  length (s_upper a) = length a /\ length (s_lower a) = length a /\ length (s_swapcase a) = length a /\
  s_upper (s_upper a) = s_upper a /\ s_lower (s_lower a) = s_lower a /\ s_swapcase (s_swapcase a) = a.
Proof.
  intros a. destruct (upper_lower_length a) as (A & B & C).
  repeat split; auto using upper_idempotent, lower_idempotent, swapcase_involutive.
Qed.

Theorem C17_upper : forall (a : str) k, k < length a ->
  is_lower_c (nth k (s_upper a) 0%Z) = false /\ (is_lower_c (nth k a 0%Z) = false -> nth k (s_upper a) 0%Z = nth k a 0%Z).
Proof. exact upper_spec. Qed.

Example C17_nonvacuous :
  split_str [97;98;45;99;100;45;101;102]%Z [45]%Z None = [[97;98];[99;100];[101;102]]%Z /\
  rsplit_str [97;98;45;99;100;45;101;102]%Z [45]%Z (Some 2) = [[97;98;45;99;100];[101;102]]%Z /\
  replace_str [97;98]%Z [97]%Z [98;97]%Z None = [98;97;98]%Z /\ s_less [97;32]%Z [97;98]%Z = true.
Proof. repeat split; vm_compute; reflexivity. Qed.

Theorem C17_replace : forall s old new count, old <> [] ->
  replace_str s old new count = join_with new (split_str s old (option_map S count)).
Proof. exact replace_is_split_join. Qed.

Theorem C17_replace_laws : forall s old new, old <> [] ->
  replace_str s old old None = s /\ replace_str s old new (Some 0) = s.
Proof. intros s old new H. split; [apply replace_self | apply replace_zero]; exact H. Qed.

Example C17_replace_nonvacuous :
  replace_str [97;97;97;98]%Z [97;97]%Z [120]%Z None = [120;97;98]%Z /\
  replace_str [97;45;98;45;99]%Z [45]%Z [43;43]%Z (Some 1) = [97;43;43;98;45;99]%Z.
Proof. split; vm_compute; reflexivity. Qed.

Theorem C17_zfill : forall (a : str) width,
  length (s_zfill a width) = Nat.max (length a) width /\
  exists sign zeros body, a = sign ++ body /\ s_zfill a width = sign ++ zeros ++ body /\
    (sign = [] \/ sign = [45%Z]) /\ zeros = repeat 48%Z (length zeros) /\ (width <= length a -> zeros = []).
Proof. exact zfill_spec. Qed.

Theorem C17_translate : forall (a : str) table,
  length (s_translate a table) = length a /\
  forall k, k < length a -> nth k (s_translate a table) 0%Z = translate_c table (nth k a 0%Z).
Proof. exact translate_spec. Qed.

(* C03 — broadcasting follows the trailing-axis stretch rule, in shape and in values.
   Vocabulary: bsrc s c is the source coordinate of output coordinate c (added leading axes dropped, index 0
   along stretched axes); stretchable_rev (rev s) (rev t): every axis of s, aligned at the trailing axis,
   has length 1 or the target's length; dims_clash: aligned lengths differ and neither is 1, or one is 0. *)
From ArrRs Require Import Index Axis Broadcast Broadcast_proofs.

(* the common shape has the larger rank and on every axis (counted from the trailing one, missing axes as 1)
   the larger aligned length *)
Theorem C03_shape : forall s1 s2 fs,
  broadcast_shape s1 s2 = Ok fs -> pos_shape s1 -> pos_shape s2 ->
  length fs = Nat.max (length s1) (length s2) /\
  forall k, nth k (rev fs) 1 = Nat.max (nth k (rev s1) 1) (nth k (rev s2) 1).
Proof. exact broadcast_shape_spec. Qed.

(* two compatible arrays: result has the common shape and pairs, at every position, the two source elements *)
Theorem C03_values : forall (T S : Type) (dt : T) (ds : S) (a : arr T) (b : arr S),
  wf a -> wf b -> pos_shape (shape a) -> pos_shape (shape b) ->
  is_broadcastable (shape a) (shape b) = Ok tt ->
  exists r fs, broadcast dt ds a b = Ok r /\ broadcast_shape (shape a) (shape b) = Ok fs /\ shape r = fs /\ wf r /\
    length fs = Nat.max (ndim a) (ndim b) /\
    stretchable_rev (rev (shape a)) (rev fs) = true /\ stretchable_rev (rev (shape b)) (rev fs) = true /\
    forall c, in_range fs c ->
      get (dt, ds) r c = (get dt a (bsrc (shape a) c), get ds b (bsrc (shape b) c)).
Proof. exact @broadcast_spec. Qed.

(* operands that disagree on an axis where neither length is one are rejected with the broadcast error *)
Theorem C03_refuse : forall (T S : Type) (dt : T) (ds : S) (a : arr T) (b : arr S),
  existsb dims_clash (combine (rev (shape a)) (rev (shape b))) = true ->
  broadcast dt ds a b = Err EBroadcast.
Proof. exact @broadcast_refuse. Qed.

(* one array to a target shape it can be stretched to *)
Theorem C03_to_values : forall (T : Type) (dflt : T) (a : arr T) sh,
  wf a -> is_broadcastable (shape a) sh = Ok tt -> stretchable_rev (rev (shape a)) (rev sh) = true ->
  exists r, broadcast_to dflt a sh = Ok r /\ shape r = sh /\ wf r /\
    forall c, in_range sh c -> in_range (shape a) (bsrc (shape a) c) /\ get dflt r c = get dflt a (bsrc (shape a) c).
Proof. exact @broadcast_to_stretch. Qed.

(* a target of a different element count that the source cannot be stretched to is rejected *)
Theorem C03_to_refuse : forall (T : Type) (dflt : T) (a : arr T) sh,
  shape a <> sh -> stretchable_rev (rev (shape a)) (rev sh) = false -> prod (shape a) <> prod sh ->
  broadcast_to dflt a sh = Err EBroadcast.
Proof. exact @broadcast_to_refuse. Qed.

(* a list of arrays: each output is its input broadcast to the one common shape *)
Theorem C03_arrays : forall (T : Type) (dflt : T) (l : list (arr T)) rs,
  broadcast_arrays dflt l = Ok rs ->
  exists cs, common_broadcast_shape (map shape l) = Ok cs /\
    Forall2 (fun a r => broadcast_to dflt a cs = Ok r) l rs.
Proof. exact @broadcast_arrays_spec. Qed.

(* zip stretches only the argument, to the receiver *)
Theorem C03_zip : forall (T S : Type) (dt : T) (ds : S) (a : arr T) (b : arr S),
  wf a -> wf b -> is_broadcastable (shape b) (shape a) = Ok tt ->
  stretchable_rev (rev (shape b)) (rev (shape a)) = true ->
  exists r, zip ds a b = Ok r /\ shape r = shape a /\ wf r /\
    forall c, in_range (shape a) c -> get (dt, ds) r c = (get dt a c, get ds b (bsrc (shape b) c)).
Proof. exact @zip_spec. Qed.

(* non-vacuity: [2;1;3] with [4;1] gives [2;4;3]; position [1;2;0] pairs a[1;0;0] with b[2;0] *)
Example C03_nonvacuous :
  let a := mk (map Z.of_nat (seq 0 6)) [2;1;3] in let b := mk (map Z.of_nat (seq 100 4)) [4;1] in
  is_broadcastable (shape a) (shape b) = Ok tt /\ broadcast_shape (shape a) (shape b) = Ok [2;4;3] /\
  bsrc (shape a) [1;2;0] = [1;0;0] /\ bsrc (shape b) [1;2;0] = [2;0] /\
  exists r, broadcast 0%Z 0%Z a b = Ok r /\ get (0%Z, 0%Z) r [1;2;0] = (3%Z, 102%Z).
Proof. cbn zeta. repeat split; try reflexivity. eexists. split; vm_compute; reflexivity. Qed.

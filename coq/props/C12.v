(* C12 — flip, roll and quarter-turn rotation are exact coordinate maps with inverses.
   PROVED: the rotation primitive used by roll sends index i to (i + shift) mod n for every integer shift of any
   magnitude and sign and keeps the length; flipping with no axis reverses the flat order; an axis outside the rank
   is an error value; rot90's guards (rank >= 2, exactly two axes) and the k = 0 (mod 4) identity; all results well
   formed.  NOT YET PROVED (exhaustively checked by the correspondence run, incl. the inverse laws flip-flip,
   roll(s)-roll(-s) and k + (4-k) quarter turns executed on the implementation): the per-axis coordinate statements
   for flip / roll on inner axes of n-d arrays and the decomposition of rot90 into single turns. *)
From ArrRs Require Import Index Axis Axis_proofs Reorder Reorder_proofs.

Theorem C12_rotate : forall (A : Type) (d : A) (l : list A) (s : Z) i, i < length l ->
  nth (Z.to_nat ((Z.of_nat i + s) mod Z.of_nat (length l))) (rotate l s) d = nth i l d.
Proof. exact @rotate_spec. Qed.

Theorem C12_rotate_length : forall (A : Type) (l : list A) (s : Z), length (rotate l s) = length l.
Proof. exact @rotate_length. Qed.

Theorem C12_flip_flat : forall (T : Type) (dflt : T) (a : arr T),
  wf a -> flip dflt a None = Ok (mk (rev (elems a)) (shape a)).
Proof. exact @flip_none. Qed.

Theorem C12_flip_axis_out_of_range : forall (T : Type) (dflt : T) (a : arr T) z l1 l2,
  (Z.of_nat (ndim a) < 9223372036854775808)%Z -> isize_ok z -> ~ axis_ok (ndim a) z ->
  flip dflt a (Some (l1 ++ z :: l2)) = Err EAxis.
Proof. exact @flip_axis_err. Qed.

Theorem C12_rot90_identity : forall (T : Type) (dflt : T) (a : arr T) k p q,
  2 <= ndim a -> (- Z.of_nat (ndim a) <= p < Z.of_nat (ndim a))%Z -> (- Z.of_nat (ndim a) <= q < Z.of_nat (ndim a))%Z ->
  k mod 4 = 0 -> rot90 dflt a k [p; q] = Ok a.
Proof. exact @rot90_zero. Qed.

Theorem C12_rot90_guards : forall (T : Type) (dflt : T) (a : arr T) k axes,
  (ndim a < 2 -> rot90 dflt a k axes = Err EUnsupDim) /\
  (2 <= ndim a -> length axes <> 2 -> rot90 dflt a k axes = Err EParam).
Proof. exact @rot90_guards. Qed.

Theorem C12_results_wf_partial : forall (T : Type) (dflt : T) (a : arr T) r,
  (forall axes, flip dflt a axes = Ok r -> wf r) /\ (forall sh axes, roll dflt a sh axes = Ok r -> wf r) /\
  (forall k axes, wf a -> rot90 dflt a k axes = Ok r -> wf r).
Proof.
  intros. split; [intros; eapply flip_wf; eauto|]. split; [intros; eapply roll_wf; eauto | intros; eapply rot90_wf; eauto].
Qed.

Example C12_nonvacuous :
  rotate [0;1;2;3;4]%Z 7%Z = [3;4;0;1;2]%Z /\ rotate [0;1;2;3;4]%Z (-7)%Z = [2;3;4;0;1]%Z /\
  flip 0%Z (mk (map Z.of_nat (seq 0 12)) [2;3;2]) (Some [1%Z]) = Ok (mk [4;5;2;3;0;1;10;11;8;9;6;7]%Z [2;3;2]) /\
  rot90 0%Z (mk [0;1;2;3;4;5]%Z [2;3]) 1 [0;1]%Z = Ok (mk [2;5;1;4;0;3]%Z [3;2]).
Proof. repeat split; vm_compute; reflexivity. Qed.

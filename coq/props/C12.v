(* C12 — flip, roll and quarter-turn rotation are exact coordinate maps with inverses.
   PROVED, for arrays of every rank with positive extents and every axis in either spelling:
   - C12_flip_axis: flipping along one axis puts at coordinate c the element from c with the axis entry mirrored
     (n-1-i); every other coordinate entry is unchanged;  C12_flip_axes: a list of axes is the successive flips;
   - C12_roll_axis: rolling along one axis (rank >= 2) by ANY integer shift puts at c the element from c with the
     axis entry moved back by the shift modulo the axis length;
   - both through the shared per-axis step of the code (C12_axis_step: slabs for axis 0, lanes for the last axis,
     recursion into the leading slabs for inner axes) proved once for any 1-D rearrangement with an index map;
   - the rotation primitive sends index i to (i + shift) mod n for every integer shift; flipping with no axis
     reverses the flat order; an axis outside the rank is an error value; rot90's guards (rank >= 2, exactly two axes)
     and the k = 0 (mod 4) identity; all results well formed.
   - QUARTER TURNS: C12_rot90_one — one turn in the plane (p, q) is the flip of the second axis followed by the
     exchange of the two axes, as a coordinate map; C12_rot90_two — two turns equal two successive single turns and
     are the flip of both axes; C12_rot90_mod4 — the count matters only modulo four (k = 0: the array itself).
   - SEVERAL (shift, axis) PAIRS: C12_accumulate — the shifts are accumulated per axis: ascending over the axes that
     occur, each with the sum of the shifts requested for it (repeated axes add up); C12_roll_pairs — the result holds
     at c the element found by moving every listed axis entry back by its accumulated shift (roll_src).
   - C12_rot90_three — three turns (the code: exchange the two axes, then flip the second) equal three successive
     single turns, as a coordinate map; C12_rot90_four — four successive single turns restore the array.
   - C12_rot90_spelling — negative spellings of the plane axes denote the axes counted from the end (for every count).
   - C12_roll_flat / C12_roll_rank1 — with no axis (any rank) and on rank-1 arrays the element list is rotated by
     the shift (C12_rotate: index i goes to (i + shift) mod n) and the shape is kept.
   - INVERSE LAWS: C12_flip_twice — flipping twice along an axis restores the array; C12_roll_inverse — rolling by s
     and then by -s along an axis restores it; C12_rotate_inverse — the same for the flat rotation; four quarter
     turns: C12_rot90_four.
   The same laws are also executed on the implementation by the correspondence run. *)
From ArrRs Require Import Index Axis Axis_proofs Broadcast_proofs Reorder Reorder_proofs Reorder_axis Roll_pairs Rot3_proofs Reorder_inverse.

Theorem C12_rotate : forall (A : Type) (d : A) (l : list A) (s : Z) i, i < length l ->
  nth (Z.to_nat ((Z.of_nat i + s) mod Z.of_nat (length l))) (rotate l s) d = nth i l d.
Proof. exact @rotate_spec. Qed.

Theorem C12_rotate_length : forall (A : Type) (l : list A) (s : Z), length (rotate l s) = length l.
Proof. exact @rotate_length. Qed.

Theorem C12_flip_flat : forall (T : Type) (dflt : T) (a : arr T),
  wf a -> flip dflt a None = Ok (mk (rev (elems a)) (shape a)).
Proof. exact @flip_none. Qed.

Theorem C12_flip_axis_out_of_range : forall (T : Type) (dflt : T) (a : arr T) z l1 l2,
  (Z.of_nat (ndim a) < 9223372036854775808)%Z -> isize_ok z -> ~ axis_ok (ndim a) z ->
  flip dflt a (Some (l1 ++ z :: l2)) = Err EAxis.
Proof. exact @flip_axis_err. Qed.

Theorem C12_rot90_identity : forall (T : Type) (dflt : T) (a : arr T) k p q,
  2 <= ndim a -> (- Z.of_nat (ndim a) <= p < Z.of_nat (ndim a))%Z -> (- Z.of_nat (ndim a) <= q < Z.of_nat (ndim a))%Z ->
  k mod 4 = 0 -> rot90 dflt a k [p; q] = Ok a.
Proof. exact @rot90_zero. Qed.

Theorem C12_rot90_guards : forall (T : Type) (dflt : T) (a : arr T) k axes,
  (ndim a < 2 -> rot90 dflt a k axes = Err EUnsupDim) /\
  (2 <= ndim a -> length axes <> 2 -> rot90 dflt a k axes = Err EParam).
Proof. exact @rot90_guards. Qed.

Theorem C12_results_wf_partial : forall (T : Type) (dflt : T) (a : arr T) r,
  (forall axes, flip dflt a axes = Ok r -> wf r) /\ (forall sh axes, roll dflt a sh axes = Ok r -> wf r) /\
  (forall k axes, wf a -> rot90 dflt a k axes = Ok r -> wf r).
Proof.
  intros. split; [intros; eapply flip_wf; eauto|]. split; [intros; eapply roll_wf; eauto | intros; eapply rot90_wf; eauto].
Qed.

(* the shared per-axis step as a coordinate map, for any 1-D rearrangement h with index map sigma *)
Theorem C12_axis_step : forall (T : Type) (dflt : T) (h : forall A : Type, list A -> list A) (sigma : nat -> nat -> nat),
  (forall A (l : list A), length (h A l) = length l) ->
  (forall A (l : list A) d i, i < length l -> nth i (h A l) d = nth (sigma (length l) i) l d) ->
  (forall n i, i < n -> sigma n i < n) ->
  forall ax sh es, pos_shape sh -> ax < length sh -> length es = prod sh ->
  axis_apply dflt h es sh ax = Ok (axis_perm dflt sigma es sh ax).
Proof. exact @axis_apply_spec. Qed.

Theorem C12_axis_step_get : forall (T : Type) (dflt : T) (sigma : nat -> nat -> nat) ax sh es c,
  pos_shape sh -> ax < length sh -> length es = prod sh -> in_range sh c ->
  nth (flat sh c) (axis_perm dflt sigma es sh ax) dflt = nth (flat sh (upd c ax (sigma (nth ax sh 0) (nth ax c 0)))) es dflt.
Proof. exact @axis_apply_get. Qed.

Theorem C12_flip_axis : forall (T : Type) (dflt : T) (a : arr T) z,
  wf a -> pos_shape (shape a) -> (Z.of_nat (ndim a) < two64)%Z -> axis_ok (ndim a) z ->
  let ax := norm_nat (ndim a) z in
  exists R, flip dflt a (Some [z]) = Ok R /\ wf R /\ shape R = shape a /\
    forall c, in_range (shape a) c ->
      get dflt R c = get dflt a (upd c ax (nth ax (shape a) 0 - 1 - nth ax c 0)).
Proof. exact @flip_one_axis. Qed.

Theorem C12_flip_axes : forall (T : Type) (dflt : T) (a : arr T) z l,
  wf a -> pos_shape (shape a) -> (Z.of_nat (ndim a) < two64)%Z -> axis_ok (ndim a) z ->
  Forall (axis_ok (ndim a)) l ->
  flip dflt a (Some (z :: l)) = (let* a1 := flip dflt a (Some [z]) in flip dflt a1 (Some l)).
Proof. exact @flip_cons. Qed.

Theorem C12_roll_axis : forall (T : Type) (dflt : T) (a : arr T) s z,
  wf a -> pos_shape (shape a) -> (Z.of_nat (ndim a) < two64)%Z -> axis_ok (ndim a) z -> 2 <= ndim a ->
  let ax := norm_nat (ndim a) z in
  exists R, roll dflt a [s] (Some [z]) = Ok R /\ wf R /\ shape R = shape a /\
    forall c, in_range (shape a) c ->
      get dflt R c = get dflt a (upd c ax (rot_src s (nth ax (shape a) 0) (nth ax c 0))).
Proof. exact @roll_one_axis. Qed.

Theorem C12_rot_src_def : forall s n i, rot_src s n i = Z.to_nat ((Z.of_nat i - s) mod Z.of_nat n).
Proof. reflexivity. Qed.

Theorem C12_rot90_one : forall (T : Type) (dflt : T) (a : arr T) k p q,
  wf a -> pos_shape (shape a) -> 2 <= ndim a -> (Z.of_nat (ndim a) < two64)%Z -> p < ndim a -> q < ndim a -> k mod 4 = 1 ->
  exists R, rot90 dflt a k [Z.of_nat p; Z.of_nat q] = Ok R /\ wf R /\ shape R = swap_list (shape a) p q /\
    forall c, in_range (shape R) c ->
      get dflt R c = get dflt a (upd (swap_list c p q) q (nth q (shape a) 0 - 1 - nth p c 0)).
Proof. exact @rot90_one. Qed.

Theorem C12_rot90_two : forall (T : Type) (dflt : T) (a : arr T) p q,
  wf a -> pos_shape (shape a) -> 2 <= ndim a -> (Z.of_nat (ndim a) < two64)%Z -> p < ndim a -> q < ndim a -> p <> q ->
  exists R1 R, rot90 dflt a 1 [Z.of_nat p; Z.of_nat q] = Ok R1 /\ rot90 dflt R1 1 [Z.of_nat p; Z.of_nat q] = Ok R /\
    rot90 dflt a 2 [Z.of_nat p; Z.of_nat q] = Ok R /\ shape R = shape a /\
    forall c, in_range (shape a) c ->
      get dflt R c = get dflt a (upd (upd c p (nth p (shape a) 0 - 1 - nth p c 0)) q (nth q (shape a) 0 - 1 - nth q c 0)).
Proof. exact @rot90_two. Qed.

Theorem C12_rot90_mod4 : forall (T : Type) (dflt : T) (a : arr T) k axes, rot90 dflt a k axes = rot90 dflt a (k mod 4) axes.
Proof. exact @rot90_mod4. Qed.

Theorem C12_rot90_three : forall (T : Type) (dflt : T) (a : arr T) p q,
  wf a -> pos_shape (shape a) -> 2 <= ndim a -> (Z.of_nat (ndim a) < two64)%Z -> p < ndim a -> q < ndim a -> p <> q ->
  exists R1 R2 R, rot90 dflt a 1 [Z.of_nat p; Z.of_nat q] = Ok R1 /\ rot90 dflt R1 1 [Z.of_nat p; Z.of_nat q] = Ok R2 /\
    rot90 dflt R2 1 [Z.of_nat p; Z.of_nat q] = Ok R /\
    rot90 dflt a 3 [Z.of_nat p; Z.of_nat q] = Ok R /\ wf R /\ shape R = swap_list (shape a) p q /\
    forall c, in_range (shape R) c ->
      get dflt R c = get dflt a (upd (swap_list c p q) p (nth p (shape a) 0 - 1 - nth q c 0)).
Proof. exact @rot90_three. Qed.

Theorem C12_rot90_four : forall (T : Type) (dflt : T) (a : arr T) p q,
  wf a -> pos_shape (shape a) -> 2 <= ndim a -> (Z.of_nat (ndim a) < two64)%Z -> p < ndim a -> q < ndim a -> p <> q ->
  exists R1 R2 R3, rot90 dflt a 1 [Z.of_nat p; Z.of_nat q] = Ok R1 /\ rot90 dflt R1 1 [Z.of_nat p; Z.of_nat q] = Ok R2 /\
    rot90 dflt R2 1 [Z.of_nat p; Z.of_nat q] = Ok R3 /\ rot90 dflt R3 1 [Z.of_nat p; Z.of_nat q] = Ok a.
Proof. exact @rot90_four. Qed.

Theorem C12_rot90_spelling : forall (T : Type) (dflt : T) (a : arr T) k p q,
  (Z.of_nat (ndim a) < two64)%Z -> (- Z.of_nat (ndim a) <= p < Z.of_nat (ndim a))%Z -> (- Z.of_nat (ndim a) <= q < Z.of_nat (ndim a))%Z ->
  rot90 dflt a k [p; q] = rot90 dflt a k [Z.of_nat (Z.to_nat (if (p <? 0)%Z then p + Z.of_nat (ndim a) else p)%Z);
                                          Z.of_nat (Z.to_nat (if (q <? 0)%Z then q + Z.of_nat (ndim a) else q)%Z)].
Proof. exact @rot90_spelling. Qed.

Theorem C12_roll_flat : forall (T : Type) (dflt : T) (a : arr T) s, wf a ->
  roll dflt a [s] None = Ok (mk (rotate (elems a) s) (shape a)).
Proof. exact @roll_flat. Qed.

Theorem C12_roll_rank1 : forall (T : Type) (dflt : T) (a : arr T) s z n, wf a -> shape a = [n] -> (-1 <= z < 1)%Z ->
  roll dflt a [s] (Some [z]) = Ok (mk (rotate (elems a) s) (shape a)).
Proof. exact @roll_rank1. Qed.

Theorem C12_flip_twice : forall (T : Type) (d : T) (a : arr T) z,
  wf a -> pos_shape (shape a) -> (Z.of_nat (ndim a) < two64)%Z -> axis_ok (ndim a) z ->
  exists R, flip d a (Some [z]) = Ok R /\ flip d R (Some [z]) = Ok a.
Proof. exact @flip_twice. Qed.

Theorem C12_roll_inverse : forall (T : Type) (d : T) (a : arr T) s z,
  wf a -> pos_shape (shape a) -> (Z.of_nat (ndim a) < two64)%Z -> axis_ok (ndim a) z -> 2 <= ndim a ->
  exists R, roll d a [s] (Some [z]) = Ok R /\ roll d R [(- s)%Z] (Some [z]) = Ok a.
Proof. exact @roll_inverse. Qed.

Theorem C12_rotate_inverse : forall (A : Type) (l : list A) s, rotate (rotate l s) (- s) = l.
Proof. exact @rotate_inverse. Qed.

Example C12_axis_nonvacuous :
  flip 0%Z (mk (map Z.of_nat (seq 0 12)) [2;3;2]) (Some [(-2)%Z]) = Ok (mk [4;5;2;3;0;1;10;11;8;9;6;7]%Z [2;3;2]) /\
  roll 0%Z (mk (map Z.of_nat (seq 0 12)) [2;3;2]) [(-7)%Z] (Some [1%Z]) = Ok (mk [2;3;4;5;0;1;8;9;10;11;6;7]%Z [2;3;2]) /\
  rot_src (-7) 3 0 = 1.
Proof. repeat split; vm_compute; reflexivity. Qed.

Example C12_nonvacuous :
  rotate [0;1;2;3;4]%Z 7%Z = [3;4;0;1;2]%Z /\ rotate [0;1;2;3;4]%Z (-7)%Z = [2;3;4;0;1]%Z /\
  flip 0%Z (mk (map Z.of_nat (seq 0 12)) [2;3;2]) (Some [1%Z]) = Ok (mk [4;5;2;3;0;1;10;11;8;9;6;7]%Z [2;3;2]) /\
  rot90 0%Z (mk [0;1;2;3;4;5]%Z [2;3]) 1 [0;1]%Z = Ok (mk [2;5;1;4;0;3]%Z [3;2]).
Proof. repeat split; vm_compute; reflexivity. Qed.

(* roll with several (shift, axis) pairs *)
Theorem C12_accumulate : forall n pairs,
  accumulate_shifts n pairs =
  map (fun ax => (ax, total_shift n pairs ax)) (filter (occurs n pairs) (seq 0 (S (max_axis n pairs)))).
Proof. exact accumulate_spec. Qed.

Theorem C12_roll_pairs : forall (T : Type) (dflt : T) (a : arr T) shifts axes P,
  wf a -> pos_shape (shape a) -> (Z.of_nat (ndim a) < two64)%Z -> 2 <= ndim a ->
  Forall (axis_ok (ndim a)) axes ->
  broadcast 0%Z 0%Z (mk shifts [length shifts]) (mk axes [length axes]) = Ok P -> ndim P <= 1 ->
  Forall (fun q => axis_ok (ndim a) (snd q)) (elems P) ->
  exists R, roll dflt a shifts (Some axes) = Ok R /\ wf R /\ shape R = shape a /\
    forall c, in_range (shape a) c ->
      get dflt R c = get dflt a (roll_src (shape a) (accumulate_shifts (ndim a) (elems P)) c).
Proof. exact @roll_pairs. Qed.

(* C13 — delete, insert, append and repeat change exactly the addressed positions.
   PROVED: trimming removes leading and trailing zeros only (decomposition zeros ++ trimmed ++ zeros with non-zero
   ends) and is restricted to rank 1; deleting refuses any index at or beyond the length and removes exactly one
   element per distinct valid position; flat append chains the element lists (C11_append_flat).
   NOT YET PROVED (exhaustively checked by the correspondence run incl. insert-then-delete round trips executed on
   the implementation): 'keeps all other elements in order' for delete, the placement statement for insert, and the
   per-index repeat statement along an axis. *)
From Coq Require Import Sorted.
From ArrRs Require Import Index Axis Edit Edit_proofs.

Theorem C13_trim : forall (A : Type) (p : A -> bool) l,
  let t := drop_while p (rev (drop_while p (rev l))) in
  exists pre suf, l = pre ++ t ++ suf /\ forallb p pre = true /\ forallb p suf = true /\
    starts_without p t /\ starts_without p (rev t).
Proof. exact @trim_spec. Qed.

Theorem C13_trim_is_that : forall (T : Type) (is_zero : T -> bool) (a : arr T), ndim a = 1 ->
  exists r, trim_zeros is_zero a = Ok r /\ elems r = drop_while is_zero (rev (drop_while is_zero (rev (elems a)))).
Proof. exact @trim_zeros_elems. Qed.

Theorem C13_trim_rank : forall (T : Type) (is_zero : T -> bool) (a : arr T),
  ndim a <> 1 -> trim_zeros is_zero a = Err EUnsupDim.
Proof. exact @trim_zeros_rank. Qed.

Theorem C13_delete_out_of_bounds : forall (T : Type) (a : arr T) idx,
  existsb (fun i => len a <=? i) idx = true -> delete1 idx a = Err EOob.
Proof. exact @delete1_oob. Qed.

Theorem C13_delete_count_partial : forall (A : Type) (idx : list nat) (l : list A),
  NoDup idx -> Forall (fun i => i < length l) idx -> StronglySorted gt idx ->
  length (fold_left (fun es i => remove_nth es i) idx l) = length l - length idx.
Proof. exact @fold_remove_length. Qed.

Example C13_nonvacuous :
  delete 0%Z (mk [0;1;2;3;4;5]%Z [6]) [4;1;4] None = Ok (mk [0;2;3;5]%Z [4]) /\
  insert_flat 0%Z (mk [0;1;2;3]%Z [4]) [1;1;4] (mk [10;11;12]%Z [3]) = Ok (mk [0;10;11;1;2;3;12]%Z [7]) /\
  repeat_arr 0%Z (mk [0;1;2;3;4;5]%Z [2;3]) [2;0;1] (Some 1) = Ok (mk [0;0;2;3;3;5]%Z [2;3]) /\
  trim_zeros (Z.eqb 0) (mk [0;0;1;0;2;0]%Z [6]) = Ok (mk [1;0;2]%Z [3]).
Proof. repeat split; vm_compute; reflexivity. Qed.

(* C13 — delete, insert, append and repeat change exactly the addressed positions.
   PROVED: deleting keeps every element whose position is not listed, in the original order (keep l idx), for any
   index list (duplicates and any order allowed) — flat form (C13_delete_flat) and along an axis of an array of any
   rank, lane by lane (C13_delete_axis); the result length is the old one minus the number of distinct listed
   positions; any index at or beyond the length is refused whatever else the list holds; the index list delete
   works with is strictly descending with the same members (C13_prepare); trimming removes leading and trailing
   zeros only and is restricted to rank 1; flat append chains the element lists (C11_append_flat).
   INSERT (flat form): C13_insert_core — inserting the stably sorted requests from the back yields, for every original
   position in order, the values requested for that position in request order followed by the original element, and
   the values requested for the end position last (insert_spec), for any number of requests, repeated and unsorted
   positions included; C13_insert_flat lifts it to the array operation (the request list being what broadcasting the
   position list against the flattened values yields; that broadcast itself is C03).
   REPEAT along an axis (rank >= 2): C13_repeat_axis — the result's axis has the sum of the counts as its length and
   its entry k repeats the input's entry src reps k (src walks the counts), everything else unchanged.
   REPEAT with no axis: C13_repeat_flat_scalar — one count k emits every element of the flattened array k consecutive
   times (the stretch of the count to the array's shape is inside the theorem); C13_repeat_flat_counts — one count per
   element of a rank-1 array emits element i count_i times.
   C13_repeat_rank1 — along axis 0 of a rank-1 array element i is emitted count_i consecutive times (the split into
   one-element pieces, the re-assembly and the identity axis move are inside the theorem).
   ROUND TRIP (C13_insert_then_delete): `marks` flags the inserted slots of the flat insertion's result (the values
   requested for a position precede the original element there) and deleting exactly the flagged positions returns the
   flattened original — "deleting what was just inserted restores the original", for any request list.
   insert along an axis is outside the property's text (it speaks of flat positions) and is checked as a model/code
   correspondence only. *)
From Coq Require Import Sorted.
From ArrRs Require Import Index Axis Axis_proofs Broadcast_proofs Reduce Along_proofs Edit Edit_proofs Delete_proofs Broadcast Insert_proofs Repeat_proofs Repeat_flat Join_refuse Repeat_rank1 Insert_roundtrip.

Theorem C13_trim : forall (A : Type) (p : A -> bool) l,
  let t := drop_while p (rev (drop_while p (rev l))) in
  exists pre suf, l = pre ++ t ++ suf /\ forallb p pre = true /\ forallb p suf = true /\
    starts_without p t /\ starts_without p (rev t).
Proof. exact @trim_spec. Qed.

Theorem C13_trim_is_that : forall (T : Type) (is_zero : T -> bool) (a : arr T), ndim a = 1 ->
  exists r, trim_zeros is_zero a = Ok r /\ elems r = drop_while is_zero (rev (drop_while is_zero (rev (elems a)))).
Proof. exact @trim_zeros_elems. Qed.

Theorem C13_trim_rank : forall (T : Type) (is_zero : T -> bool) (a : arr T),
  ndim a <> 1 -> trim_zeros is_zero a = Err EUnsupDim.
Proof. exact @trim_zeros_rank. Qed.

Theorem C13_delete_out_of_bounds : forall (T : Type) (a : arr T) idx,
  existsb (fun i => len a <=? i) idx = true -> delete1 idx a = Err EOob.
Proof. exact @delete1_oob. Qed.

Theorem C13_delete_count_partial : forall (A : Type) (idx : list nat) (l : list A),
  NoDup idx -> Forall (fun i => i < length l) idx -> StronglySorted gt idx ->
  length (fold_left (fun es i => remove_nth es i) idx l) = length l - length idx.
Proof. exact @fold_remove_length. Qed.

(* what is kept: the elements at the positions not listed, in order *)
Theorem C13_keep_def : forall (A : Type) k (x : A) t ks,
  keep_from k (x :: t) ks = if existsb (Nat.eqb k) ks then keep_from (S k) t ks else x :: keep_from (S k) t ks.
Proof. reflexivity. Qed.

Theorem C13_prepare : forall idx,
  StronglySorted gt (prepare_indices idx) /\ (forall y, In y (prepare_indices idx) <-> In y idx).
Proof. exact prepare_indices_spec. Qed.

Theorem C13_delete_flat : forall (T : Type) (d : T) (a : arr T) idx, (forall i, In i idx -> i < len a) ->
  delete d a idx None = Ok (mk (keep (elems a) idx) [length (keep (elems a) idx)]) /\
  length (keep (elems a) idx) = len a - length (prepare_indices idx).
Proof. exact @delete_flat_spec. Qed.

Theorem C13_delete_flat_refuses : forall (T : Type) (d : T) (a : arr T) idx i,
  In i idx -> len a <= i -> delete d a idx None = Err EOob.
Proof. exact @delete_flat_oob. Qed.

Theorem C13_delete_axis : forall (T : Type) (d : T) (a : arr T) idx ax,
  wf a -> pos_shape (shape a) -> ax < ndim a -> (Z.of_nat (ndim a) < two64)%Z ->
  (forall i, In i idx -> i < nth ax (shape a) 0) ->
  exists R, delete d a idx (Some ax) = Ok R /\ wf R /\
    shape R = upd (shape a) ax (nth ax (shape a) 0 - length (prepare_indices idx)) /\
    forall c, in_range (shape R) c ->
      get d R c = nth (nth ax c 0) (keep (elems (lane d a ax (remove_nth c ax))) idx) d.
Proof. exact @delete_axis_spec. Qed.

(* insert *)
Theorem C13_insert_spec_def : forall (T : Type) (d : T) (l : list T) pairs,
  insert_spec d l pairs =
  flat_map (fun i => map snd (filter (fun p => fst p =? i) pairs) ++ (if i <? length l then [nth i l d] else []))
           (seq 0 (S (length l))).
Proof. reflexivity. Qed.

Theorem C13_insert_core : forall (T : Type) (d : T) (pairs : list (nat * T)) (l : list T),
  Forall (fun p => fst p <= length l) pairs ->
  insert_back l (sort_pairs pairs) = Ok (insert_spec d l pairs).
Proof.
  intros T d pairs l F. destruct (sort_pairs_spec pairs) as (S & G & M).
  rewrite (insert_back_spec d (sort_pairs pairs) l S).
  - f_equal. unfold insert_spec. apply flat_map_ext_in'. intros i _. f_equal. apply (G i).
  - apply Forall_forall. intros p Hp. apply M in Hp. rewrite Forall_forall in F. exact (F p Hp).
Qed.

Theorem C13_insert_flat : forall (T : Type) (d : T) (a values : arr T) idx pr,
  existsb (fun i => len a <? i) idx = false -> 1 <= ndim a -> ndim values = 1 ->
  broadcast_h2 0 d (mk idx [length idx]) (mk (elems values) [len values]) = Ok pr ->
  let P := combine (elems (fst pr)) (elems (snd pr)) in
  Forall (fun p => fst p <= len a) P ->
  insert_flat d a idx values = Ok (mk (insert_spec d (elems a) P) [length (insert_spec d (elems a) P)]).
Proof. exact @insert_flat_spec. Qed.

Theorem C13_insert_flat_refuses : forall (T : Type) (d : T) (a values : arr T) idx i,
  In i idx -> len a < i -> insert_flat d a idx values = Err EOob.
Proof. exact @insert_flat_refuse. Qed.

Theorem C13_marks_def : forall (T : Type) (l : list T) pairs,
  marks l pairs = flat_map (fun i => repeat true (length (filter (fun p => fst p =? i) pairs)) ++ (if i <? length l then [false] else []))
                           (seq 0 (S (length l))).
Proof. intros. unfold marks, group. apply flat_map_ext. intros i. now rewrite map_length. Qed.

Theorem C13_flagged_def : forall k b t, flagged k (b :: t) = (if b then [k] else []) ++ flagged (S k) t.
Proof. reflexivity. Qed.

Theorem C13_insert_then_delete : forall (T : Type) (d : T) (a : arr T) pairs,
  keep (insert_spec d (elems a) pairs) (flagged 0 (marks (elems a) pairs)) = elems a /\
  delete d (mk (insert_spec d (elems a) pairs) [length (insert_spec d (elems a) pairs)]) (flagged 0 (marks (elems a) pairs)) None
    = Ok (mk (elems a) [len a]).
Proof. intros. split; [apply insert_then_delete | apply insert_then_delete_arr]. Qed.

Example C13_roundtrip_nonvacuous :
  insert_spec 0%Z [10; 20; 30]%Z [(3, 7%Z); (1, 8%Z); (1, 9%Z)] = [10; 8; 9; 20; 30; 7]%Z /\
  flagged 0 (marks [10; 20; 30]%Z [(3, 7%Z); (1, 8%Z); (1, 9%Z)]) = [1; 2; 5].
Proof. split; vm_compute; reflexivity. Qed.

Theorem C13_repeat_rank1 : forall (T : Type) (d : T) (a : arr T) repeats n rb,
  wf a -> shape a = [n] -> 0 < n ->
  broadcast_to 0 (mk repeats [length repeats]) [n] = Ok rb -> length (elems rb) = n ->
  repeat_arr d a repeats (Some 0) =
    Ok (mk (flat_map (fun p => repeat (fst p) (snd p)) (combine (elems a) (elems rb))) [fold_left Nat.add (elems rb) 0]).
Proof. exact @repeat_rank1. Qed.

Theorem C13_repeat_flat_scalar : forall (T : Type) (dflt : T) (a : arr T) k,
  wf a -> shape a <> [] -> pos_shape (shape a) ->
  repeat_arr dflt a [k] None = Ok (mk (flat_map (fun x => repeat x k) (elems a)) [length (elems a) * k]).
Proof. exact @repeat_flat_scalar. Qed.

Theorem C13_repeat_flat_counts : forall (T : Type) (dflt : T) (a : arr T) reps,
  wf a -> reps <> [] -> shape a = [length reps] ->
  repeat_arr dflt a reps None =
    Ok (mk (flat_map (fun p => repeat (fst p) (snd p)) (combine (elems a) reps))
           [length (flat_map (fun p => repeat (fst p) (snd p)) (combine (elems a) reps))]).
Proof. exact @repeat_flat_counts. Qed.

Example C13_insert_nonvacuous :
  insert_spec 0%Z [0;1;2;3]%Z [(1,10%Z); (4,12%Z); (1,11%Z)] = [0;10;11;1;2;3;12]%Z /\
  insert_back [0;1;2;3]%Z (sort_pairs [(1,10%Z); (4,12%Z); (1,11%Z)]) = Ok [0;10;11;1;2;3;12]%Z.
Proof. split; vm_compute; reflexivity. Qed.

(* repeat *)
Theorem C13_src_def : forall r t k, src (r :: t) k = if k <? r then 0 else S (src t (k - r)).
Proof. reflexivity. Qed.

Theorem C13_repeat_axis : forall (T : Type) (d : T) (a : arr T) repeats ax rb,
  wf a -> pos_shape (shape a) -> 2 <= ndim a -> ax < ndim a -> (Z.of_nat (ndim a) < two64)%Z ->
  broadcast_to 0 (mk repeats [length repeats]) [nth ax (shape a) 0] = Ok rb ->
  length (elems rb) = nth ax (shape a) 0 ->
  let reps := elems rb in
  exists R, repeat_arr d a repeats (Some ax) = Ok R /\ wf R /\
    shape R = upd (shape a) ax (fold_left Nat.add reps 0) /\
    forall c, in_range (shape R) c -> get d R c = get d a (upd c ax (src reps (nth ax c 0))).
Proof. exact @repeat_axis_spec. Qed.

Example C13_repeat_nonvacuous :
  map (src [2;0;1]) [0;1;2] = [0;0;2] /\
  broadcast_to 0 (mk [2;0;1] [3]) [3] = Ok (mk [2;0;1] [3]) /\ broadcast_to 0 (mk [2] [1]) [3] = Ok (mk [2;2;2] [3]).
Proof. repeat split; vm_compute; reflexivity. Qed.

Example C13_nonvacuous :
  delete 0%Z (mk [0;1;2;3;4;5]%Z [6]) [4;1;4] None = Ok (mk [0;2;3;5]%Z [4]) /\
  insert_flat 0%Z (mk [0;1;2;3]%Z [4]) [1;1;4] (mk [10;11;12]%Z [3]) = Ok (mk [0;10;11;1;2;3;12]%Z [7]) /\
  repeat_arr 0%Z (mk [0;1;2;3;4;5]%Z [2;3]) [2;0;1] (Some 1) = Ok (mk [0;0;2;3;3;5]%Z [2;3]) /\
  trim_zeros (Z.eqb 0) (mk [0;0;1;0;2;0]%Z [6]) = Ok (mk [1;0;2]%Z [3]) /\
  keep [10;11;12;13;14]%Z [3;1;3] = [10;12;14]%Z /\ prepare_indices [3;1;3] = [3;1].
Proof. repeat split; vm_compute; reflexivity. Qed.

#!/bin/sh
# usage: coq/build.sh [make targets...]   — full .vo build (never -vos) under a shell timeout
set -e
cd "$(dirname "$0")"
{ cat _CoqProject.head; ls theories/*.v props/*.v extract/*.v 2>/dev/null | sort; } > _CoqProject.new
if ! cmp -s _CoqProject.new _CoqProject 2>/dev/null || [ ! -f Makefile ]; then
  mv _CoqProject.new _CoqProject
  coq_makefile -f _CoqProject -o Makefile >/dev/null 2>&1
else
  rm -f _CoqProject.new
fi
exec timeout "${COQ_TIMEOUT:-1500}" make -j"${COQ_JOBS:-16}" "$@"

//! C04 / C05 / C20: elementwise operations, closure iteration, operator overloads
use crate::common::*;
use std::collections::BTreeSet;

/// how labels of a case line become element values
pub trait FromLabel: Numeric + Lab { fn conv(pool: bool, x: i128) -> Self; }
macro_rules! from_label_int { ($($t:ty),*) => { $(impl FromLabel for $t { fn conv(_pool: bool, x: i128) -> Self { x as $t } })* } }
from_label_int!(i8, i16, i32, i64, u8, u16, u32, u64);
impl FromLabel for f64 { fn conv(pool: bool, x: i128) -> Self { if pool { POOL[x as usize] } else { x as f64 } } }
impl FromLabel for f32 { fn conv(pool: bool, x: i128) -> Self { if pool { POOL[x as usize] as f32 } else { x as f32 } } }

fn mkn<N: FromLabel>(pool: bool, sh: &[usize], es: &[i128]) -> Option<Array<N>> {
    Array::new(es.iter().map(|&x| N::conv(pool, x)).collect(), sh.to_vec()).ok()
}

fn call2_num<N: Numeric + Lab>(op: &str, a: &Array<N>, b: &Array<N>) -> Option<Result<Array<N>, ArrayError>> {
    Some(match op {
        "add" => ArrayArithmetic::add(a, b), "subtract" => wr(a.subtract(b), okr(a).subtract(b)), "multiply" => wr(a.multiply(b), okr(a).multiply(b)),
        "divide" => wr(a.divide(b), okr(a).divide(b)), "true_divide" => wr(a.true_divide(b), okr(a).true_divide(b)), "floor_divide" => wr(a.floor_divide(b), okr(a).floor_divide(b)),
        "power" => wr(a.power(b), okr(a).power(b)), "float_power" => wr(a.float_power(b), okr(a).float_power(b)),
        "remainder" => wr(a.remainder(b), okr(a).remainder(b)), "mod" => wr(a.r#mod(b), okr(a).r#mod(b)), "fmod" => wr(a.fmod(b), okr(a).fmod(b)),
        "logn" => wr(a.logn(b), okr(a).logn(b)), "log_add_exp" => wr(a.log_add_exp(b), okr(a).log_add_exp(b)), "log_add_exp2" => wr(a.log_add_exp2(b), okr(a).log_add_exp2(b)),
        "bitwise_and" => wr(a.bitwise_and(b), okr(a).bitwise_and(b)), "bitwise_or" => wr(a.bitwise_or(b), okr(a).bitwise_or(b)), "bitwise_xor" => wr(a.bitwise_xor(b), okr(a).bitwise_xor(b)),
        "left_shift" => wr(a.left_shift(b), okr(a).left_shift(b)), "right_shift" => wr(a.right_shift(b), okr(a).right_shift(b)),
        "maximum" => wr(a.maximum(b), okr(a).maximum(b)), "minimum" => wr(a.minimum(b), okr(a).minimum(b)), "fmax" => wr(a.fmax(b), okr(a).fmax(b)), "fmin" => wr(a.fmin(b), okr(a).fmin(b)),
        "gcd" => wr(a.gcd(b), okr(a).gcd(b)), "lcm" => wr(a.lcm(b), okr(a).lcm(b)), "heaviside" => wr(a.heaviside(b), okr(a).heaviside(b)),
        _ => return None,
    })
}
fn call2_ops<N: NumericOps + Lab>(op: &str, a: &Array<N>, b: &Array<N>) -> Option<Result<Array<N>, ArrayError>> {
    Some(match op { "atan2" => wr(a.atan2(b), okr(a).atan2(b)), "hypot" => wr(a.hypot(b), okr(a).hypot(b)), _ => return None })
}
fn call2_fl<N: Floating + Lab>(op: &str, a: &Array<N>, b: &Array<N>) -> Option<Result<Array<N>, ArrayError>> {
    Some(match op { "copysign" => wr(a.copysign(b), okr(a).copysign(b)), "nextafter" => wr(a.nextafter(b), okr(a).nextafter(b)), _ => return None })
}

fn call1_num<N: Numeric + Lab>(op: &str, a: &Array<N>) -> Option<Result<Array<N>, ArrayError>> {
    Some(match op {
        "reciprocal" => wr(a.reciprocal(), okr(a).reciprocal()), "positive" => wr(a.positive(), okr(a).positive()), "negative" => wr(a.negative(), okr(a).negative()),
        "exp" => wr(a.exp(), okr(a).exp()), "exp2" => wr(a.exp2(), okr(a).exp2()), "exp_m1" => wr(a.exp_m1(), okr(a).exp_m1()), "log" => wr(a.log(), okr(a).log()), "log10" => wr(a.log10(), okr(a).log10()),
        "log2" => wr(a.log2(), okr(a).log2()), "log_1p" => wr(a.log_1p(), okr(a).log_1p()),
        "acosh" => wr(a.acosh(), okr(a).acosh()), "asinh" => wr(a.asinh(), okr(a).asinh()), "atanh" => wr(a.atanh(), okr(a).atanh()), "cosh" => wr(a.cosh(), okr(a).cosh()), "sinh" => wr(a.sinh(), okr(a).sinh()), "tanh" => wr(a.tanh(), okr(a).tanh()),
        "abs" => wr(a.abs(), okr(a).abs()), "absolute" => wr(a.absolute(), okr(a).absolute()), "cbrt" => wr(a.cbrt(), okr(a).cbrt()), "fabs" => wr(a.fabs(), okr(a).fabs()), "nan_to_num" => wr(a.nan_to_num(), okr(a).nan_to_num()),
        "sqrt" => wr(a.sqrt(), okr(a).sqrt()), "square" => wr(a.square(), okr(a).square()),
        "ceil" => wr(a.ceil(), okr(a).ceil()), "fix" => wr(a.fix(), okr(a).fix()), "floor" => wr(a.floor(), okr(a).floor()), "rint" => wr(a.rint(), okr(a).rint()), "trunc" => wr(a.trunc(), okr(a).trunc()),
        "bitwise_not" => wr(a.bitwise_not(), okr(a).bitwise_not()), "invert" => wr(a.invert(), okr(a).invert()),
        _ => return None,
    })
}
fn call1_ops<N: NumericOps + Lab>(op: &str, a: &Array<N>) -> Option<Result<Array<N>, ArrayError>> {
    Some(match op {
        "i0" => wr(a.i0(), okr(a).i0()), "sinc" => wr(a.sinc(), okr(a).sinc()),
        "acos" => wr(a.acos(), okr(a).acos()), "asin" => wr(a.asin(), okr(a).asin()), "atan" => wr(a.atan(), okr(a).atan()), "cos" => wr(a.cos(), okr(a).cos()), "deg2rad" => wr(a.deg2rad(), okr(a).deg2rad()),
        "degrees" => wr(a.degrees(), okr(a).degrees()), "rad2deg" => wr(a.rad2deg(), okr(a).rad2deg()), "radians" => wr(a.radians(), okr(a).radians()), "sin" => wr(a.sin(), okr(a).sin()), "tan" => wr(a.tan(), okr(a).tan()),
        _ => return None,
    })
}
fn call1_fl<N: Floating + Lab>(op: &str, a: &Array<N>) -> Option<Result<Array<N>, ArrayError>> {
    Some(match op { "spacing" => wr(a.spacing(), okr(a).spacing()), _ => return None })
}

/// per-type view of which operation families exist for the element type
pub trait Elem: FromLabel {
    fn call2(op: &str, a: &Array<Self>, b: &Array<Self>) -> Option<Result<Array<Self>, ArrayError>>;
    fn call1(op: &str, a: &Array<Self>) -> Option<Result<Array<Self>, ArrayError>>;
}
macro_rules! elem_a { ($($t:ty),*) => { $(impl Elem for $t {
    fn call2(op: &str, a: &Array<Self>, b: &Array<Self>) -> Option<Result<Array<Self>, ArrayError>> { call2_num(op, a, b) }
    fn call1(op: &str, a: &Array<Self>) -> Option<Result<Array<Self>, ArrayError>> { call1_num(op, a) }
})* } }
macro_rules! elem_b { ($($t:ty),*) => { $(impl Elem for $t {
    fn call2(op: &str, a: &Array<Self>, b: &Array<Self>) -> Option<Result<Array<Self>, ArrayError>> { call2_num(op, a, b).or_else(|| call2_ops(op, a, b)) }
    fn call1(op: &str, a: &Array<Self>) -> Option<Result<Array<Self>, ArrayError>> { call1_num(op, a).or_else(|| call1_ops(op, a)) }
})* } }
macro_rules! elem_c { ($($t:ty),*) => { $(impl Elem for $t {
    fn call2(op: &str, a: &Array<Self>, b: &Array<Self>) -> Option<Result<Array<Self>, ArrayError>> { call2_num(op, a, b).or_else(|| call2_ops(op, a, b)).or_else(|| call2_fl(op, a, b)) }
    fn call1(op: &str, a: &Array<Self>) -> Option<Result<Array<Self>, ArrayError>> { call1_num(op, a).or_else(|| call1_ops(op, a)).or_else(|| call1_fl(op, a)) }
})* } }
elem_a!(u8, u16, u32, u64);
elem_b!(i8, i16, i32, i64);
elem_c!(f32, f64);
fn call2<N: Elem>(op: &str, a: &Array<N>, b: &Array<N>) -> Option<Result<Array<N>, ArrayError>> { N::call2(op, a, b) }
fn call1<N: Elem>(op: &str, a: &Array<N>) -> Option<Result<Array<N>, ArrayError>> { N::call1(op, a) }

fn distinct(es: &[i128]) -> Vec<i128> { es.iter().copied().collect::<BTreeSet<_>>().into_iter().collect() }

fn single_val<N: Numeric + Lab>(r: Result<Array<N>, ArrayError>) -> String {
    match r { Ok(a) => match a.get_elements() { Ok(v) if v.len() == 1 => v[0].to_lab(), _ => "?".into() }, Err(_) => "E".into() }
}

/// round / around: the second operand is an array of decimal places (isize), taken literally from the labels
fn ew2_round<N: Elem>(pool: bool, op: &str, s1: &[usize], e1: &[i128], s2: &[usize], e2: &[i128]) -> Option<String> {
    let a = mkn::<N>(pool, s1, e1)?;
    let d = Array::<isize>::new(e2.iter().map(|&x| x as isize).collect(), s2.to_vec()).ok()?;
    let call = |x: &Array<N>, y: &Array<isize>| if op == "round" { x.round(y) } else { x.around(y) };
    let r = call(&a, &d);
    let mut tbl = vec![];
    let mut rf = vec![];
    for &x in &distinct(e1) { for &y in &distinct(e2) {
        let v = single_val(call(&Array::single(N::conv(pool, x)).unwrap(), &Array::single(y as isize).unwrap()));
        tbl.push(format!("{x}/{y}={v}"));
        if is_float::<N>() {
            // rounding to y decimal places: the nearest multiple of 10^-y (exact ties and scalings that leave the
            // range of f64 are not judged)
            let xf = N::conv(pool, x).to_f64();
            let m = 10f64.powi(y as i32);
            let scaled = xf * m;
            let want = if !scaled.is_finite() || m == 0.0 || !m.is_finite() || (scaled - scaled.trunc()).abs() == 0.5 { None }
                       else { Some(scaled.round() / m) };
            rf.push(format!("{x}/{y}={}~{}", fref(want), fref(Some(xf.abs()))));
        }
    } }
    Some(format!("{}|tbl({})|{}({})", res_arr(&r), tbl.join(";"), ref_tag::<N>(), rf.join(";")))
}


/// Independent references for the scalar functions (std's f64 functions, called here directly and not through the
/// library under test).  `None`: no reference is defined for that operation.
fn ref1(op: &str, x: f64) -> Option<f64> {
    Some(match op {
        "reciprocal" => 1.0 / x, "positive" => x, "negative" => -x,
        "exp" => x.exp(), "exp2" => x.exp2(), "exp_m1" => x.exp_m1(), "log" => x.ln(), "log10" => x.log10(), "log2" => x.log2(),
        "log_1p" => x.ln_1p(), "acosh" => x.acosh(), "asinh" => x.asinh(), "atanh" => x.atanh(),
        "cosh" => x.cosh(), "sinh" => x.sinh(), "tanh" => x.tanh(),
        "abs" | "absolute" | "fabs" => x.abs(), "cbrt" => x.cbrt(), "sqrt" => x.sqrt(), "square" => x * x,
        "ceil" => x.ceil(), "floor" => x.floor(), "trunc" | "fix" => x.trunc(),
        // nearest integer; which way an exact tie goes is not stated by the library: ties are not judged
        "rint" => if (x - x.trunc()).abs() == 0.5 { return None } else { x.round() },
        "acos" => x.acos(), "asin" => x.asin(), "atan" => x.atan(), "cos" => x.cos(), "sin" => x.sin(), "tan" => x.tan(),
        "deg2rad" | "radians" => x.to_radians(), "degrees" | "rad2deg" => x.to_degrees(),
        "sinc" => if x == 0.0 { 1.0 } else { let p = std::f64::consts::PI * x; p.sin() / p },
        "signbit" => if x.is_sign_negative() { 1.0 } else { 0.0 },
        _ => return None,
    })
}
fn ref2(op: &str, x: f64, y: f64, single: bool) -> Option<f64> {
    // the arithmetic family is evaluated in double precision and converted back to the element type
    let back = |v: f64| if single { v as f32 as f64 } else { v };
    Some(match op {
        "add" => x + y, "subtract" => x - y, "multiply" => x * y, "divide" | "true_divide" => x / y,
        "floor_divide" => back(x / y).floor(),
        // the library's definitions: power raises to the integer part of the exponent (float_power takes a float
        // exponent), fmod is the floored modulo, remainder / mod keep the sign of the dividend
        "power" => x.powi(y as i32), "float_power" => x.powf(y),
        "fmod" => x - (x / y).floor() * y, "remainder" | "mod" => x % y,
        "atan2" => x.atan2(y), "hypot" => x.hypot(y),
        "maximum" => if x.is_nan() || y.is_nan() { f64::NAN } else { x.max(y) },
        "minimum" => if x.is_nan() || y.is_nan() { f64::NAN } else { x.min(y) },
        "fmax" => x.max(y), "fmin" => x.min(y),
        // the step function of NaN is not stated
        "heaviside" => if x.is_nan() { return None } else if x < 0.0 { 0.0 } else if x == 0.0 { y } else { 1.0 },
        "copysign" => x.copysign(y),
        // bitwise logic and shifts on floats go through an integer cast (128 bits wide for f64; the f32 carrier is
        // narrower, so single-precision operands beyond its range are not judged)
        "bitwise_and" | "bitwise_or" | "bitwise_xor" | "left_shift" | "right_shift" if single && (x.abs() >= 9.2e18 || y.abs() >= 9.2e18) => return None,
        "bitwise_and" => ((x as i128) & (y as i128)) as f64, "bitwise_or" => ((x as i128) | (y as i128)) as f64,
        "bitwise_xor" => ((x as i128) ^ (y as i128)) as f64,
        "left_shift" => if !(0.0..=60.0).contains(&y) { return None } else { ((x as i128) << (y as u32)) as f64 },
        "right_shift" => if !(0.0..=60.0).contains(&y) { return None } else { ((x as i128) >> (y as u32)) as f64 },
        // beyond the range of exp the plain formula overflows: not judged
        "log_add_exp" => if x.is_nan() || y.is_nan() { f64::NAN } else if x.max(y) > 700.0 { return None } else { (x.exp() + y.exp()).ln() },
        // log_add_exp2: see the known finding F28 (judged separately against its documented definition)
        _ => return None,
    })
}
/// the magnitude a rounding error is measured against: the result, or the operands where the operation cancels
fn scale2(op: &str, x: f64, y: f64, v: Option<f64>) -> f64 {
    let r = v.map_or(0.0, f64::abs);
    match op { "add" | "subtract" => x.abs() + y.abs(), "fmod" | "remainder" | "mod" => x.abs().max(r), _ => r }
}
/// operations whose integer instances are "the f64 function, converted back" (judged against the reference also for
/// integer element types; seeded change C04i: subtract on unsigned types)
const INT_REF2: [&str; 6] = ["add", "subtract", "multiply", "hypot", "power", "float_power"];
const INT_REF1: [&str; 24] = ["positive", "negative", "abs", "absolute", "fabs", "square", "sqrt", "cbrt", "exp", "exp2", "floor", "ceil",
    "log", "log2", "log10", "log_1p", "exp_m1", "trunc", "fix", "rint",
    "degrees", "radians", "deg2rad", "rad2deg"];
fn ref_tag<N>() -> &'static str { if std::any::type_name::<N>() == "f32" { "ref32" } else { "ref" } }
fn is_float<N>() -> bool { matches!(std::any::type_name::<N>(), "f64" | "f32") }
/// reference for an INTEGER element type: the f64 reference converted the way the library converts (truncation,
/// saturation); not judged when the reference is not finite or lies within 1e-9 of an integer (where an accurate
/// but different algorithm may truncate to the neighbouring value)
fn iref<N: Numeric + Lab>(v: Option<f64>) -> String {
    match v {
        Some(v) if v.is_finite() && v.abs() < 9e15 && (v == v.round() || (v - v.round()).abs() > 1e-9 * v.abs().max(1.0)) => N::cast_ref(v).to_lab(),
        _ => "?".into(),
    }
}
fn fref(v: Option<f64>) -> String {
    match v { None => "?".into(), Some(v) if v.is_nan() => "nan".into(), Some(v) => format!("f{:016x}", v.to_bits()) }
}

/// result + scalar table obtained from the same operation on one-element arrays + reference table (float types)
fn ew2<N: Elem>(pool: bool, op: &str, args: &[Arg]) -> Option<String> {
    let (s1, e1, s2, e2) = match args { [Arg::A(s1, e1), Arg::A(s2, e2), ..] => (s1, e1, s2, e2), _ => return None };
    if op == "round" || op == "around" { return ew2_round::<N>(pool, op, s1, e1, s2, e2) }
    let (a, b) = (mkn::<N>(pool, s1, e1)?, mkn::<N>(pool, s2, e2)?);
    let r = call2(op, &a, &b)?;
    let mut tbl = vec![];
    let mut rf = vec![];
    for &x in &distinct(e1) { for &y in &distinct(e2) {
        let v = single_val(call2(op, &Array::single(N::conv(pool, x)).unwrap(), &Array::single(N::conv(pool, y)).unwrap())?);
        tbl.push(format!("{x}/{y}={v}"));
        if is_float::<N>() {
            let (xf, yf) = (N::conv(pool, x).to_f64(), N::conv(pool, y).to_f64());
            let v = ref2(op, xf, yf, std::any::type_name::<N>() == "f32");
            rf.push(format!("{x}/{y}={}~{}", fref(v), fref(Some(scale2(op, xf, yf, v)))));
        } else if INT_REF2.contains(&op) {
            // integer element types: the arithmetic family is evaluated in double precision and converted back
            let (xf, yf) = (N::conv(pool, x).to_f64(), N::conv(pool, y).to_f64());
            rf.push(format!("{x}/{y}={}", iref::<N>(ref2(op, xf, yf, false))));
        }
    } }
    Some(format!("{}|tbl({})|{}({})", res_arr(&r), tbl.join(";"), ref_tag::<N>(), rf.join(";")))
}

fn ew1<N: SignBit>(pool: bool, op: &str, args: &[Arg]) -> Option<String> {
    let (s1, e1) = match args { [Arg::A(s1, e1)] => (s1, e1), _ => return None };
    let a = mkn::<N>(pool, s1, e1)?;
    if op == "signbit" { return signbit_of(pool, &a, e1) }
    let r = call1(op, &a)?;
    let mut tbl = vec![];
    let mut rf = vec![];
    for &x in &distinct(e1) {
        let v = single_val(call1(op, &Array::single(N::conv(pool, x)).unwrap())?);
        tbl.push(format!("{x}={v}"));
        if op == "nan_to_num" {
            // documented: "replace NaN with zero and infinity with large finite numbers"; every other value is kept as
            // it is, in the element type (seeded change C05l: a round trip through f64 lost f32::MAX and large i64)
            let e = N::conv(pool, x);
            if !is_float::<N>() { rf.push(format!("{x}={}", e.to_lab())); }
            else { let xf = e.to_f64(); rf.push(format!("{x}={}", if xf.is_nan() { fref(Some(0.0)) } else if xf.is_infinite() { "big".into() } else { fref(Some(xf)) })); }
        }
        else if is_float::<N>() { rf.push(format!("{x}={}", fref(ref1(op, N::conv(pool, x).to_f64())))); }
        else if INT_REF1.contains(&op) { rf.push(format!("{x}={}", iref::<N>(ref1(op, N::conv(pool, x).to_f64())))); }
    }
    Some(format!("{}|tbl({})|{}({})", res_arr(&r), tbl.join(";"), ref_tag::<N>(), rf.join(";")))
}

/// signbit exists for the floating types only
trait SignBit: Elem { fn signbit_arr(a: &Array<Self>) -> Option<Result<Array<bool>, ArrayError>>; }
macro_rules! no_signbit { ($($t:ty),*) => { $(impl SignBit for $t { fn signbit_arr(_: &Array<Self>) -> Option<Result<Array<bool>, ArrayError>> { None } })* } }
no_signbit!(u8, u16, u32, u64, i8, i16, i32, i64);
impl SignBit for f64 { fn signbit_arr(a: &Array<Self>) -> Option<Result<Array<bool>, ArrayError>> { Some(a.signbit()) } }
impl SignBit for f32 { fn signbit_arr(a: &Array<Self>) -> Option<Result<Array<bool>, ArrayError>> { Some(a.signbit()) } }
fn signbit_of<N: SignBit>(pool: bool, a: &Array<N>, e1: &[i128]) -> Option<String> {
    let r = N::signbit_arr(a)?;
    let mut tbl = vec![];
    let mut rf = vec![];
    for &x in &distinct(e1) {
        let v = match N::signbit_arr(&Array::single(N::conv(pool, x)).unwrap())? {
            Ok(b) => b.get_elements().ok().and_then(|v| v.first().map(|t| if *t { "1" } else { "0" }.to_string())).unwrap_or("?".into()),
            Err(_) => "E".into() };
        tbl.push(format!("{x}={v}"));
        rf.push(format!("{x}={}", fref(ref1("signbit", N::conv(pool, x).to_f64()))));
    }
    Some(format!("{}|tbl({})|{}({})", res_arr(&r), tbl.join(";"), ref_tag::<N>(), rf.join(";")))
}

fn plain2<N: Elem>(op: &str, args: &[Arg]) -> Option<String> {
    let (s1, e1, s2, e2) = match args { [Arg::A(s1, e1), Arg::A(s2, e2)] => (s1, e1, s2, e2), _ => return None };
    let (a, b) = (mkn::<N>(false, s1, e1)?, mkn::<N>(false, s2, e2)?);
    Some(res_arr(&call2(op, &a, &b)?))
}

fn plain1<N: Elem>(op: &str, args: &[Arg]) -> Option<String> {
    let (s1, e1) = match args { [Arg::A(s1, e1)] => (s1, e1), _ => return None };
    let a = mkn::<N>(false, s1, e1)?;
    if op == "sign" { return Some(w2(res_arr(&a.sign()), res_arr(&okr(&a).sign()))); }
    Some(res_arr(&call1(op, &a)?))
}

macro_rules! num_type {
    ($ty:expr, $N:ident, $pool:ident, $body:expr) => {
        match $ty {
            "i8" => { type $N = i8; let $pool = false; $body }
            "i16" => { type $N = i16; let $pool = false; $body }
            "i32" => { type $N = i32; let $pool = false; $body }
            "i64" => { type $N = i64; let $pool = false; $body }
            "u8" => { type $N = u8; let $pool = false; $body }
            "u64" => { type $N = u64; let $pool = false; $body }
            "f64" => { type $N = f64; let $pool = false; $body }
            "f32" => { type $N = f32; let $pool = false; $body }
            "f64p" => { type $N = f64; let $pool = true; $body }
            "f32p" => { type $N = f32; let $pool = true; $body }
            _ => None,
        }
    };
}

// ---------------- closures (C05) ----------------

fn closures(op: &str, args: &[Arg]) -> Option<String> {
    let (sh, es) = match args.first() { Some(Arg::A(sh, es)) => (sh, es), _ => return None };
    let a = mk::<i64>(sh, es)?;
    let log_s = |log: &Vec<i64>| format!("l({})", log.iter().map(|x| x.to_string()).collect::<Vec<_>>().join(","));
    Some(match op {
        "map_log" => {
            let (mut c, mut log) = (0i64, vec![]);
            let r: Result<Array<i64>, _> = a.map(|x| { log.push(*x); let v = x * 3 + c; c += 1; v });
            format!("list({};z({c});{})", res_arr(&r), log_s(&log))
        }
        "map_e_log" => {
            let (mut c, mut log) = (0i64, vec![]);
            let r: Result<Array<i64>, _> = a.map_e(|i, x| { log.push(i as i64); log.push(*x); let v = x * 3 + c + 7 * i as i64; c += 1; v });
            format!("list({};z({c});{})", res_arr(&r), log_s(&log))
        }
        "filter_log" => {
            let (mut c, mut log) = (0i64, vec![]);
            let r = a.filter(|x| { log.push(*x); let v = (x + c) % 2 == 0; c += 1; v });
            format!("list({};z({c});{})", res_arr(&r), log_s(&log))
        }
        "filter_e_log" => {
            let (mut c, mut log) = (0i64, vec![]);
            let r = a.filter_e(|i, x| { log.push(i as i64); log.push(*x); let v = (x + c + i as i64) % 2 == 0; c += 1; v });
            format!("list({};z({c});{})", res_arr(&r), log_s(&log))
        }
        "filter_map_log" => {
            let (mut c, mut log) = (0i64, vec![]);
            let r: Result<Array<i64>, _> = a.filter_map(|x| { log.push(*x); let v = x + c; c += 1; if v.rem_euclid(3) == 0 { None } else { Some(2 * v) } });
            format!("list({};z({c});{})", res_arr(&r), log_s(&log))
        }
        "filter_map_e_log" => {
            let (mut c, mut log) = (0i64, vec![]);
            let r: Result<Array<i64>, _> = a.filter_map_e(|i, x| { log.push(i as i64); log.push(*x); let v = x + c + 5 * i as i64; c += 1; if v.rem_euclid(3) == 0 { None } else { Some(2 * v) } });
            format!("list({};z({c});{})", res_arr(&r), log_s(&log))
        }
        "for_each_log" => {
            let (mut c, mut log) = (0i64, vec![]);
            a.for_each(|x| { log.push(*x); log.push(c); c += 1; }).ok()?;
            format!("list(z({c});{})", log_s(&log))
        }
        "for_each_e_log" => {
            let (mut c, mut log) = (0i64, vec![]);
            a.for_each_e(|i, x| { log.push(i as i64); log.push(*x); log.push(c); c += 1; }).ok()?;
            format!("list(z({c});{})", log_s(&log))
        }
        "fold_acc" => {
            let init = match args.get(1) { Some(Arg::Z(z)) => *z as i64, _ => return None };
            let r: Result<i64, _> = a.fold(init, |acc, x| acc * 3 + x);
            res_z(&r)
        }
        "into_iter" => {
            let v: Vec<i64> = a.into_iter().collect();
            log_s(&v)
        }
        _ => return None,
    })
}

// ---------------- operators (C20) ----------------

fn op_arr<N: NumericOps>(o: i128, a: Array<N>, b: Array<N>) -> Option<Array<N>> {
    Some(match o { 0 => a + b, 1 => a - b, 2 => a * b, 3 => a / b, 4 => a % b, _ => return None })
}
fn op_scalar<N: NumericOps>(o: i128, a: Array<N>, s: N) -> Option<Result<Array<N>, ArrayError>> {
    Some(match o { 0 => a + s, 1 => a - s, 2 => a * s, 3 => a / s, 4 => a % s, _ => return None })
}
fn op_assign<N: NumericOps>(o: i128, a: &mut Array<N>, b: Array<N>) -> Option<()> {
    match o { 0 => *a += b, 1 => *a -= b, 2 => *a *= b, 3 => *a /= b, 4 => *a %= b, _ => return None }
    Some(())
}
fn op_assign_scalar<N: NumericOps>(o: i128, a: &mut Array<N>, s: N) -> Option<()> {
    match o { 0 => *a += s, 1 => *a -= s, 2 => *a *= s, 3 => *a /= s, 4 => *a %= s, _ => return None }
    Some(())
}
fn native<N: NumericOps>(o: i128, x: N, y: N) -> N {
    match o { 0 => x + y, 1 => x - y, 2 => x * y, 3 => x / y, _ => x % y }
}

fn ops_num<N: FromLabel + NumericOps>(pool: bool, op: &str, args: &[Arg]) -> Option<String> {
    let tbl2 = |o: i128, e1: &[i128], e2: &[i128]| -> String {
        let mut t = vec![];
        for &x in &distinct(e1) { for &y in &distinct(e2) {
            t.push(format!("{x}/{y}={}", native(o, N::conv(pool, x), N::conv(pool, y)).to_lab()));
        } }
        format!("|tbl({})", t.join(";"))
    };
    Some(match (op, args) {
        ("op2", [Arg::Z(o), Arg::A(s1, e1), Arg::A(s2, e2)]) => {
            let o = &(*o % 100);
            let r = op_arr(*o, mkn::<N>(pool, s1, e1)?, mkn::<N>(pool, s2, e2)?)?;
            format!("{}{}", arr_str(&r), if pool { tbl2(*o, e1, e2) } else { String::new() })
        }
        ("op2a", [Arg::Z(o), Arg::A(s1, e1), Arg::A(s2, e2)]) => {
            let o = &(*o % 100);
            let mut a = mkn::<N>(pool, s1, e1)?;
            op_assign(*o, &mut a, mkn::<N>(pool, s2, e2)?)?;
            format!("{}{}", arr_str(&a), if pool { tbl2(*o, e1, e2) } else { String::new() })
        }
        ("op2s", [Arg::Z(o), Arg::A(s1, e1), Arg::Z(x)]) => {
            let o = &(*o % 100);
            let r = op_scalar(*o, mkn::<N>(pool, s1, e1)?, N::conv(pool, *x))?;
            format!("{}{}", res_arr(&r), if pool { tbl2(*o, e1, &[*x]) } else { String::new() })
        }
        ("op2as", [Arg::Z(o), Arg::A(s1, e1), Arg::Z(x)]) => {
            let o = &(*o % 100);
            let mut a = mkn::<N>(pool, s1, e1)?;
            op_assign_scalar(*o, &mut a, N::conv(pool, *x))?;
            format!("{}{}", arr_str(&a), if pool { tbl2(*o, e1, &[*x]) } else { String::new() })
        }
        ("eq", [Arg::A(s1, e1), Arg::A(s2, e2)]) => {
            let (a, b) = (mkn::<N>(pool, s1, e1)?, mkn::<N>(pool, s2, e2)?);
            let r = a == b;
            let ne = a != b;
            let nat = a.get_elements().unwrap().iter().zip(b.get_elements().unwrap().iter()).all(|(x, y)| x == y);
            if pool { format!("z({})|nat({})|ne({})", r as i32, nat as i32, ne as i32) } else { format!("z({})", r as i32) }
        }
        ("cmpops", [Arg::A(s1, e1), Arg::A(s2, e2)]) => {
            // each ordering operator on its own (they are four separate trait methods): 1 / 0, or 2 when it panics
            let (a, b) = (mkn::<N>(pool, s1, e1)?, mkn::<N>(pool, s2, e2)?);
            let run = |f: &dyn Fn(&Array<N>, &Array<N>) -> bool| match std::panic::catch_unwind(std::panic::AssertUnwindSafe(|| f(&a, &b))) {
                Ok(v) => v as i32, Err(_) => 2 };
            format!("l({},{},{},{})", run(&|x, y| x < y), run(&|x, y| x <= y), run(&|x, y| x > y), run(&|x, y| x >= y))
        }
        ("cmp", [Arg::A(s1, e1), Arg::A(s2, e2)]) => {
            let (a, b) = (mkn::<N>(pool, s1, e1)?, mkn::<N>(pool, s2, e2)?);
            let code = |c: Option<std::cmp::Ordering>| match c { Some(std::cmp::Ordering::Less) => -1, Some(std::cmp::Ordering::Equal) => 0, Some(std::cmp::Ordering::Greater) => 1, None => 2 };
            let r = code(a.partial_cmp(&b));
            let nat = code(a.get_elements().unwrap().partial_cmp(&b.get_elements().unwrap()));
            let (lt, le, gt, ge) = (a < b, a <= b, a > b, a >= b);
            let consistent = lt == (r == -1) && le == (r == -1 || r == 0) && gt == (r == 1) && ge == (r == 1 || r == 0);
            if pool { format!("z({r})|nat({nat})|ops({})", consistent as i32) } else if consistent { format!("z({r})") } else { format!("z({r})!inconsistent") }
        }
        _ => return None,
    })
}

fn ops_signed<N: FromLabel + SignedNumericOps>(pool: bool, op: &str, args: &[Arg]) -> Option<String> {
    match (op, args) {
        ("neg" | "negp", [Arg::A(s1, e1)]) => {
            let r = -mkn::<N>(pool, s1, e1)?;
            let t: Vec<String> = distinct(e1).iter().map(|&x| format!("{x}={}", (-N::conv(pool, x)).to_lab())).collect();
            Some(format!("{}{}", arr_str(&r), if pool { format!("|tbl({})", t.join(";")) } else { String::new() }))
        }
        _ => ops_num::<N>(pool, op, args),
    }
}

fn bit_arr<N: Numeric + std::ops::BitAnd<Output = N> + std::ops::BitOr<Output = N> + std::ops::BitXor<Output = N>>(o: i128, a: Array<N>, b: Array<N>) -> Option<Array<N>> {
    Some(match o { 5 => a & b, 6 => a | b, 7 => a ^ b, _ => return None })
}

fn ops_bits<N: FromLabel + Lab + std::ops::BitAnd<Output = N> + std::ops::BitOr<Output = N> + std::ops::BitXor<Output = N>>(op: &str, args: &[Arg]) -> Option<String> {
    Some(match (op, args) {
        ("op2", [Arg::Z(o), Arg::A(s1, e1), Arg::A(s2, e2)]) => arr_str(&bit_arr(*o, mkn::<N>(false, s1, e1)?, mkn::<N>(false, s2, e2)?)?),
        ("op2a", [Arg::Z(o), Arg::A(s1, e1), Arg::A(s2, e2)]) => {
            let mut a = mkn::<N>(false, s1, e1)?;
            let b = mkn::<N>(false, s2, e2)?;
            match o { 5 => a &= b, 6 => a |= b, 7 => a ^= b, _ => return None }
            arr_str(&a)
        }
        ("op2s", [Arg::Z(o), Arg::A(s1, e1), Arg::Z(x)]) => {
            let a = mkn::<N>(false, s1, e1)?;
            let s = N::conv(false, *x);
            arr_str(&match o { 5 => a & s, 6 => a | s, 7 => a ^ s, _ => return None })
        }
        ("op2as", [Arg::Z(o), Arg::A(s1, e1), Arg::Z(x)]) => {
            let mut a = mkn::<N>(false, s1, e1)?;
            let s = N::conv(false, *x);
            match o { 5 => a &= s, 6 => a |= s, 7 => a ^= s, _ => return None }
            arr_str(&a)
        }
        _ => return None,
    })
}

fn ops_bool(op: &str, args: &[Arg]) -> Option<String> {
    let mkb = |sh: &Vec<usize>, es: &Vec<i128>| Array::<bool>::new(es.iter().map(|&x| x != 0).collect(), sh.clone()).ok();
    Some(match (op, args) {
        ("not", [Arg::A(s1, e1)]) => arr_str(&!mkb(s1, e1)?),
        ("op2", [Arg::Z(o), Arg::A(s1, e1), Arg::A(s2, e2)]) => {
            let (a, b) = (mkb(s1, e1)?, mkb(s2, e2)?);
            arr_str(&match o { 5 => a & b, 6 => a | b, 7 => a ^ b, _ => return None })
        }
        ("op2a", [Arg::Z(o), Arg::A(s1, e1), Arg::A(s2, e2)]) => {
            let (mut a, b) = (mkb(s1, e1)?, mkb(s2, e2)?);
            match o { 5 => a &= b, 6 => a |= b, 7 => a ^= b, _ => return None }
            arr_str(&a)
        }
        ("op2s", [Arg::Z(o), Arg::A(s1, e1), Arg::Z(x)]) => {
            let a = mkb(s1, e1)?;
            arr_str(&match o { 5 => a & (*x != 0), 6 => a | (*x != 0), 7 => a ^ (*x != 0), _ => return None })
        }
        ("op2as", [Arg::Z(o), Arg::A(s1, e1), Arg::Z(x)]) => {
            let mut a = mkb(s1, e1)?;
            match o { 5 => a &= *x != 0, 6 => a |= *x != 0, 7 => a ^= *x != 0, _ => return None }
            arr_str(&a)
        }
        _ => return None,
    })
}

/// exact f64 with value m * 2^e (the generator only sends representable pairs: every intermediate is exact)
fn dy_to_f64(m: i128, e: i128) -> f64 {
    if e >= 100001 { return f64::NAN }
    if e == 100000 { return if m < 0 { f64::NEG_INFINITY } else { f64::INFINITY } }
    let mut x = m as f64;
    let mut e = e;
    while e > 0 { x *= 2.0; e -= 1; }
    while e < 0 { x *= 0.5; e += 1; }
    x
}
/// canonical (odd mantissa, exponent) of a double; zero -> 0/0, +-inf -> +-1/100000, NaN -> 0/100001
fn f64_to_dy(x: f64) -> String {
    if x.is_nan() { return "0/100001".into() }
    if x.is_infinite() { return if x > 0.0 { "1/100000".into() } else { "-1/100000".into() } }
    if x == 0.0 { return "0/0".into() }
    let b = x.to_bits();
    let neg = (b >> 63) != 0;
    let ex = ((b >> 52) & 0x7ff) as i64;
    let frac = b & ((1u64 << 52) - 1);
    let (mut m, mut e) = if ex == 0 { (frac, -1074i64) } else { (frac | (1u64 << 52), ex - 1075) };
    while m % 2 == 0 { m /= 2; e += 1; }
    format!("{}{}/{}", if neg { "-" } else { "" }, m, e)
}
fn dy_arr_str(a: &Array<f64>) -> String {
    if let Some(v) = wf_violation(a) { return v }
    format!("parr({}:{})", shape_str(&a.get_shape().unwrap()), a.get_elements().unwrap().iter().map(|&x| f64_to_dy(x)).collect::<Vec<_>>().join(","))
}
fn mk_dy(sh: &[usize], ms: &[i128], es: &[i128]) -> Option<Array<f64>> {
    if ms.len() != es.len() { return None }
    Array::new(ms.iter().zip(es).map(|(&m, &e)| dy_to_f64(m, e)).collect(), sh.to_vec()).ok()
}
/// C05: mantissa / exponent decomposition on exact values
fn frexp_ops(op: &str, args: &[Arg]) -> Option<String> {
    Some(match (op, args) {
        ("frexp", [Arg::A(s, ms), Arg::A(_, es)]) => match mk_dy(s, ms, es)?.frexp() {
            Ok((man, ex)) => format!("list({};{})", dy_arr_str(&man), arr_str(&ex)),
            Err(e) => err_str(&e),
        },
        ("ldexp", [Arg::A(s, ms), Arg::A(_, es), Arg::A(sk, ks)]) => {
            let k: Array<i32> = mk(sk, ks)?;
            match mk_dy(s, ms, es)?.ldexp(&k) { Ok(r) => dy_arr_str(&r), Err(e) => err_str(&e) }
        }
        ("frexp_ldexp", [Arg::A(s, ms), Arg::A(_, es)]) => match mk_dy(s, ms, es)?.frexp() {
            Ok((man, ex)) => match man.ldexp(&ex) { Ok(r) => dy_arr_str(&r), Err(e) => err_str(&e) },
            Err(e) => err_str(&e),
        },
        _ => return None,
    })
}

pub fn dispatch(op: &str, ty: &str, args: &[Arg]) -> Option<String> {
    let r: Option<String> = match op {
        "frexp" | "ldexp" | "frexp_ldexp" => frexp_ops(op, args),
        // trim_zeros on float pools: the answer must be a slice input[i..j] of the input (compared bit by bit); the
        // harness answers with i and j (seeded change C13n: a NaN at either end was trimmed like a zero)
        // unique on float pools without NaN: the answer is strictly increasing and has one entry per distinct VALUE
        // (0.0 and -0.0 are one value) — seeded change C10p deduplicated by the printed form
        "uniqz" => {
            fn uq<N: Elem + PartialOrd>(pool: bool, args: &[Arg]) -> Option<String> {
                let (s1, e1) = match args { [Arg::A(s1, e1)] => (s1, e1), _ => return None };
                let a = mkn::<N>(pool, s1, e1)?;
                Some(match a.unique(None) {
                    Err(e) => err_str(&e),
                    Ok(r) => { if let Some(v) = wf_violation(&r) { return Some(v) }
                        let es = r.get_elements().ok()?;
                        let inc = es.windows(2).all(|w| w[0] < w[1]);
                        format!("l({},{})", es.len(), inc as i32) } })
            }
            num_type!(ty, N, pool, uq::<N>(pool, args))
        }
        "trimz" => {
            fn tz<N: Elem>(pool: bool, args: &[Arg]) -> Option<String> {
                let (s1, e1) = match args { [Arg::A(s1, e1)] => (s1, e1), _ => return None };
                let a = mkn::<N>(pool, s1, e1)?;
                let src: Vec<String> = a.get_elements().ok()?.iter().map(|x| x.to_lab()).collect();
                Some(match a.trim_zeros() {
                    Err(e) => err_str(&e),
                    Ok(r) => { if let Some(v) = wf_violation(&r) { return Some(v) }
                        let got: Vec<String> = r.get_elements().ok()?.iter().map(|x| x.to_lab()).collect();
                        let mut ans = "!notaslice".to_string();
                        'outer: for i in 0..=src.len() { for j in i..=src.len() { if src[i..j] == got[..] && (i < j || got.is_empty()) { ans = format!("list(z({i});z({j}))"); break 'outer } } }
                        if got.is_empty() { "list(empty)".to_string() } else { ans } } })
            }
            num_type!(ty, N, pool, tz::<N>(pool, args))
        }
        "ew2" | "ew1" => {
            let (name, rest) = match args.first() { Some(Arg::S(n)) => (String::from_utf8(n.clone()).ok()?, &args[1..]), _ => return Some("bad".into()) };
            if op == "ew2" { num_type!(ty, N, pool, ew2::<N>(pool, &name, rest)) } else { num_type!(ty, N, pool, ew1::<N>(pool, &name, rest)) }
        }
        "map_log" | "map_e_log" | "filter_log" | "filter_e_log" | "filter_map_log" | "filter_map_e_log"
        | "for_each_log" | "for_each_e_log" | "fold_acc" | "into_iter" => closures(op, args),
        "op2" | "op2a" | "op2s" | "op2as" | "eq" | "cmp" | "cmpops" | "neg" | "negp" | "not" => {
            let o = match args.first() { Some(Arg::Z(o)) => *o % 100, _ => -1 };
            if ty == "bool" { ops_bool(op, args) }
            else if o >= 5 { match ty { "u8" => ops_bits::<u8>(op, args), "i32" => ops_bits::<i32>(op, args), "i64" => ops_bits::<i64>(op, args), _ => None } }
            else { match ty {
                "i8" => ops_signed::<i8>(false, op, args), "i16" => ops_signed::<i16>(false, op, args),
                "i32" => ops_signed::<i32>(false, op, args), "i64" => ops_signed::<i64>(false, op, args),
                "f64p" => ops_signed::<f64>(true, op, args), "f32p" => ops_signed::<f32>(true, op, args),
                "f64" => ops_signed::<f64>(false, op, args),
                _ => None } }
        }
        _ => {
            if call2::<f64>(op, &Array::single(1.0).unwrap(), &Array::single(1.0).unwrap()).is_some() {
                num_type!(ty, N, _pool, plain2::<N>(op, args))
            } else if op == "sign" || call1::<f64>(op, &Array::single(1.0).unwrap()).is_some() {
                num_type!(ty, N, _pool, plain1::<N>(op, args))
            } else { return None }
        }
    };
    Some(r.unwrap_or_else(|| "bad:input".to_string()))
}

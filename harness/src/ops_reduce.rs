//! C08 / C11: axis-wise reductions and scans, count_nonzero, argmax/argmin, the split family
use crate::common::*;
use crate::ops_elem::FromLabel;
use crate::with_lab_type;

fn opt_isize(a: &Arg) -> Option<Option<isize>> {
    match a { Arg::N => Some(None), Arg::Z(z) => Some(Some(*z as isize)), _ => None }
}
fn opt_usize(a: &Arg) -> Option<Option<usize>> {
    match a { Arg::N => Some(None), Arg::Z(z) => Some(Some(*z as usize)), _ => None }
}
fn kd(a: &Arg) -> Option<Option<bool>> {
    match a { Arg::Z(0) => Some(Some(false)), Arg::Z(1) => Some(Some(true)), Arg::Z(_) => Some(None), _ => None }
}

fn red<N: FromLabel + NumericOps>(pool: bool, op: &str, a: &Array<N>, axis: Option<isize>, keep: Option<bool>) -> Option<String> {
    Some(match op {
        "sum" => w2(res_arr(&a.sum(axis)), res_arr(&okr(&a).sum(axis))), "nansum" => w2(res_arr(&a.nansum(axis)), res_arr(&okr(&a).nansum(axis))),
        "prod" => w2(res_arr(&a.prod(axis)), res_arr(&okr(&a).prod(axis))), "nanprod" => w2(res_arr(&a.nanprod(axis)), res_arr(&okr(&a).nanprod(axis))),
        "cumsum" => w2(res_arr(&a.cumsum(axis)), res_arr(&okr(&a).cumsum(axis))), "nancumsum" => w2(res_arr(&a.nancumsum(axis)), res_arr(&okr(&a).nancumsum(axis))),
        "cumprod" => w2(res_arr(&a.cumprod(axis)), res_arr(&okr(&a).cumprod(axis))), "nancumprod" => w2(res_arr(&a.nancumprod(axis)), res_arr(&okr(&a).nancumprod(axis))),
        "max" => w2(res_arr(&a.max(axis)), res_arr(&okr(&a).max(axis))), "amax" => w2(res_arr(&a.amax(axis)), res_arr(&okr(&a).amax(axis))), "nanmax" => w2(res_arr(&a.nanmax(axis)), res_arr(&okr(&a).nanmax(axis))),
        "min" => w2(res_arr(&a.min(axis)), res_arr(&okr(&a).min(axis))), "amin" => w2(res_arr(&a.amin(axis)), res_arr(&okr(&a).amin(axis))), "nanmin" => w2(res_arr(&a.nanmin(axis)), res_arr(&okr(&a).nanmin(axis))),
        "count_nonzero" => w2(res_arr(&a.count_nonzero(axis, keep)), res_arr(&okr(&a).count_nonzero(axis, keep))),
        "argmax" => w2(res_arr(&a.argmax(axis, keep)), res_arr(&okr(&a).argmax(axis, keep))),
        "argmin" => w2(res_arr(&a.argmin(axis, keep)), res_arr(&okr(&a).argmin(axis, keep))),
        _ => return None,
    })
}

fn go_num<N: FromLabel + NumericOps>(pool: bool, op: &str, args: &[Arg]) -> Option<String> {
    let mkn = |sh: &Vec<usize>, es: &Vec<i128>| Array::new(es.iter().map(|&x| N::conv(pool, x)).collect(), sh.clone()).ok();
    match (op, args) {
        ("lanered" | "lanescan", [Arg::S(name), Arg::A(sh, es), ax]) =>
            red::<N>(pool, std::str::from_utf8(name).ok()?, &mkn(sh, es)?, opt_isize(ax)?, None),
        ("laneidx", [Arg::S(name), Arg::A(sh, es), ax, k]) =>
            red::<N>(pool, std::str::from_utf8(name).ok()?, &mkn(sh, es)?, opt_isize(ax)?, kd(k)?),
        ("lane1", [Arg::S(name), Arg::A(sh, es)]) =>
            red::<N>(pool, std::str::from_utf8(name).ok()?, &mkn(sh, es)?, None, None),
        (_, [Arg::A(sh, es), ax]) => red::<N>(pool, op, &mkn(sh, es)?, opt_isize(ax)?, None),
        (_, [Arg::A(sh, es), ax, k]) => red::<N>(pool, op, &mkn(sh, es)?, opt_isize(ax)?, kd(k)?),
        _ => None,
    }
}

fn go_join<T: Lab>(op: &str, args: &[Arg]) -> Option<String> {
    if let ("append", [Arg::A(s1, e1), Arg::A(s2, e2), ax]) = (op, args) {
        let (x, y) = (mk::<T>(s1, e1)?, mk::<T>(s2, e2)?);
        return Some(w2(res_arr(&x.append(&y, opt_usize(ax)?)), res_arr(&okr(&x).append(&y, opt_usize(ax)?))));
    }
    let l = match args.first() { Some(Arg::As(l)) => l, _ => return None };
    let arrs = l.iter().map(|(s, e)| mk::<T>(s, e)).collect::<Option<Vec<_>>>()?;
    Some(match (op, &args[1..]) {
        ("concatenate", [ax]) => res_arr(&Array::concatenate(arrs, opt_usize(ax)?)),
        ("stack", [ax]) => res_arr(&Array::stack(arrs, opt_usize(ax)?)),
        ("vstack", []) => res_arr(&Array::vstack(arrs)),
        ("row_stack", []) => res_arr(&Array::row_stack(arrs)),
        ("hstack" | "hstack_pinned", []) => res_arr(&Array::hstack(arrs)),
        ("dstack", []) => res_arr(&Array::dstack(arrs)),
        ("column_stack", []) => res_arr(&Array::column_stack(arrs)),
        _ => return None,
    })
}

fn sort_kind(k: i128) -> SortKind {
    match k { 1 => SortKind::Mergesort, 2 => SortKind::Heapsort, 3 => SortKind::Stable, _ => SortKind::Quicksort }
}

fn go_split<T: Lab>(op: &str, args: &[Arg]) -> Option<String> {
    let (sh, es) = match args.first() { Some(Arg::A(sh, es)) => (sh, es), _ => return None };
    let a = mk::<T>(sh, es)?;
    Some(match (op, &args[1..]) {
        ("sort", [ax, Arg::N]) => w2(res_arr(&a.sort(opt_isize(ax)?, None::<SortKind>)), res_arr(&okr(&a).sort(opt_isize(ax)?, None::<SortKind>))),
        ("sort", [ax, Arg::Z(k)]) => w2(res_arr(&a.sort(opt_isize(ax)?, Some(sort_kind(*k)))), res_arr(&okr(&a).sort(opt_isize(ax)?, Some(sort_kind(*k))))),
        // the kind by name: both string parsers (&str and owned String), both receivers
        ("sort", [ax, Arg::S(k)]) => w2(w2(res_arr(&a.sort(opt_isize(ax)?, Some(std::str::from_utf8(k).ok()?))), res_arr(&a.sort(opt_isize(ax)?, Some(String::from_utf8(k.clone()).ok()?)))),
                                        w2(res_arr(&okr(&a).sort(opt_isize(ax)?, Some(std::str::from_utf8(k).ok()?))), res_arr(&okr(&a).sort(opt_isize(ax)?, Some(String::from_utf8(k.clone()).ok()?))))),
        ("argsort", [ax, Arg::N]) => w2(res_arr(&a.argsort(opt_isize(ax)?, None::<SortKind>)), res_arr(&okr(&a).argsort(opt_isize(ax)?, None::<SortKind>))),
        ("argsort", [ax, Arg::Z(k)]) => w2(res_arr(&a.argsort(opt_isize(ax)?, Some(sort_kind(*k)))), res_arr(&okr(&a).argsort(opt_isize(ax)?, Some(sort_kind(*k))))),
        ("argsort", [ax, Arg::S(k)]) => w2(w2(res_arr(&a.argsort(opt_isize(ax)?, Some(std::str::from_utf8(k).ok()?))), res_arr(&a.argsort(opt_isize(ax)?, Some(String::from_utf8(k.clone()).ok()?)))),
                                           w2(res_arr(&okr(&a).argsort(opt_isize(ax)?, Some(std::str::from_utf8(k).ok()?))), res_arr(&okr(&a).argsort(opt_isize(ax)?, Some(String::from_utf8(k.clone()).ok()?))))),
        ("unique", [ax]) => w2(res_arr(&a.unique(opt_isize(ax)?)), res_arr(&okr(&a).unique(opt_isize(ax)?))),
        ("delete", [Arg::L(idx), ax]) => w2(res_arr(&a.delete(&usizes(idx), opt_usize(ax)?)), res_arr(&okr(&a).delete(&usizes(idx), opt_usize(ax)?))),
        ("insert", [Arg::L(idx), Arg::A(s2, e2), ax]) => w2(res_arr(&a.insert(&usizes(idx), &mk::<T>(s2, e2)?, opt_usize(ax)?)), res_arr(&okr(&a).insert(&usizes(idx), &mk::<T>(s2, e2)?, opt_usize(ax)?))),
        ("insert_entry", [Arg::L(idx), Arg::A(s2, e2), ax]) => match a.insert(&usizes(idx), &mk::<T>(s2, e2)?, opt_usize(ax)?) {
            Err(e @ (ArrayError::AxisOutOfBounds | ArrayError::OutOfBounds { .. })) => err_str(&e),
            _ => "z(1)".to_string(),
        },
        ("trim_zeros", []) => w2(res_arr(&a.trim_zeros()), res_arr(&okr(&a).trim_zeros())),
        ("repeat", [Arg::L(reps), ax]) => w2(res_arr(&a.repeat(&usizes(reps), opt_usize(ax)?)), res_arr(&okr(&a).repeat(&usizes(reps), opt_usize(ax)?))),
        ("flip", [Arg::N]) => w2(res_arr(&a.flip(None)), res_arr(&okr(&a).flip(None))),
        ("flip", [Arg::L(ax)]) => w2(res_arr(&a.flip(Some(isizes(ax)))), res_arr(&okr(&a).flip(Some(isizes(ax))))),
        ("flipud", []) => w2(res_arr(&a.flipud()), res_arr(&okr(&a).flipud())),
        ("fliplr", []) => w2(res_arr(&a.fliplr()), res_arr(&okr(&a).fliplr())),
        ("roll", [Arg::L(sh), Arg::N]) => w2(res_arr(&a.roll(isizes(sh), None)), res_arr(&okr(&a).roll(isizes(sh), None))),
        ("roll", [Arg::L(sh), Arg::L(ax)]) => w2(res_arr(&a.roll(isizes(sh), Some(isizes(ax)))), res_arr(&okr(&a).roll(isizes(sh), Some(isizes(ax))))),
        ("rot90", [Arg::Z(k), Arg::L(ax)]) => w2(res_arr(&a.rot90(*k as usize, isizes(ax))), res_arr(&okr(&a).rot90(*k as usize, isizes(ax)))),
        ("array_split", [Arg::Z(p), ax]) => w2(res_arrs(&a.array_split(*p as usize, opt_usize(ax)?)), res_arrs(&okr(&a).array_split(*p as usize, opt_usize(ax)?))),
        ("split", [Arg::Z(p), ax]) => w2(res_arrs(&ArraySplit::split(&a, *p as usize, opt_usize(ax)?)), res_arrs(&ArraySplit::split(&okr(&a), *p as usize, opt_usize(ax)?))),
        ("split_axis", [Arg::Z(ax)]) => w2(res_arrs(&a.split_axis(*ax as usize)), res_arrs(&okr(&a).split_axis(*ax as usize))),
        ("hsplit", [Arg::Z(p)]) => w2(res_arrs(&a.hsplit(*p as usize)), res_arrs(&okr(&a).hsplit(*p as usize))),
        ("vsplit", [Arg::Z(p)]) => w2(res_arrs(&a.vsplit(*p as usize)), res_arrs(&okr(&a).vsplit(*p as usize))),
        ("dsplit", [Arg::Z(p)]) => w2(res_arrs(&a.dsplit(*p as usize)), res_arrs(&okr(&a).dsplit(*p as usize))),
        _ => return None,
    })
}

pub fn dispatch(op: &str, ty: &str, args: &[Arg]) -> Option<String> {
    let r: Option<String> = match op {
        "sum" | "nansum" | "prod" | "nanprod" | "cumsum" | "nancumsum" | "cumprod" | "nancumprod" | "max" | "amax" | "nanmax"
        | "min" | "amin" | "nanmin" | "count_nonzero" | "argmax" | "argmin" | "lanered" | "lanescan" | "laneidx" | "lane1" => match ty {
            "i8" => go_num::<i8>(false, op, args), "i16" => go_num::<i16>(false, op, args),
            "i32" => go_num::<i32>(false, op, args), "i64" => go_num::<i64>(false, op, args),
            "f64" => go_num::<f64>(false, op, args), "f64p" => go_num::<f64>(true, op, args), "f32p" => go_num::<f32>(true, op, args),
            // the extreme-position queries on element types that are ordered but are not numbers: words ("w00012": the
            // order of the words is the order of the labels), pairs ordered lexicographically, chars — seeded change C10o
            // (a string that does not parse as a number counted as NaN)
            "strw" | "pairk" | "char" if op == "argmax" || op == "argmin" => {
                fn ext<T: ArrayElement>(op: &str, a: &Array<T>, axis: Option<isize>, keep: Option<bool>) -> String {
                    if op == "argmax" { w2(res_arr(&a.argmax(axis, keep)), res_arr(&okr(a).argmax(axis, keep))) }
                    else { w2(res_arr(&a.argmin(axis, keep)), res_arr(&okr(a).argmin(axis, keep))) }
                }
                let (sh, es, axis, keep) = match args { [Arg::A(sh, es), ax, k] => (sh, es,
                    match ax { Arg::N => None, Arg::Z(z) => Some(*z as isize), _ => return Some("bad".into()) },
                    kd(k)?), _ => return Some("bad".into()) };
                Some(match ty {
                    "strw" => ext(op, &Array::new(es.iter().map(|x| format!("w{:05}", x + 500)).collect::<Vec<String>>(), sh.clone()).ok()?, axis, keep),
                    "char" => ext(op, &Array::new(es.iter().map(|x| char::from_u32((*x + 100) as u32).unwrap_or('?')).collect::<Vec<char>>(), sh.clone()).ok()?, axis, keep),
                    _ => ext(op, &mk::<Tuple2<i32, i32>>(sh, es)?, axis, keep) })
            }
            _ => None,
        },
        "array_split" | "split" | "split_axis" | "hsplit" | "vsplit" | "dsplit" | "sort" | "argsort" | "unique" | "flip" | "flipud" | "fliplr" | "roll" | "rot90" | "delete" | "insert" | "insert_entry" | "trim_zeros" | "repeat" =>
            Some(with_lab_type!(ty, T, match go_split::<T>(op, args) { Some(s) => s, None => "bad:input".to_string() })),
        "append" | "concatenate" | "stack" | "vstack" | "row_stack" | "hstack" | "hstack_pinned" | "dstack" | "column_stack" =>
            Some(with_lab_type!(ty, T, match go_join::<T>(op, args) { Some(s) => s, None => "bad:input".to_string() })),
        _ => return None,
    };
    Some(r.unwrap_or_else(|| "bad:input".to_string()))
}

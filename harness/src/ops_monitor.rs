//! C01 monitor-only calls: public operations that have no Coq model.  The only thing judged is that every array
//! they hand back is well formed (len == prod(shape), ndim, is_empty agree); an error value or a panic produces no
//! array and is reported as fine.  The model side answers the constant `z(1)`.
use crate::common::*;

fn ok_or<T: ArrayElement>(r: &Result<Array<T>, ArrayError>) -> Option<String> {
    match r { Ok(a) => wf_violation(a), Err(_) => None }
}
fn ok_pair<T: ArrayElement>(r: &Result<(Array<T>, Array<T>), ArrayError>) -> Option<String> {
    match r { Ok((a, b)) => wf_violation(a).or_else(|| wf_violation(b)), Err(_) => None }
}
fn ok_list<T: ArrayElement>(r: &Result<Vec<Array<T>>, ArrayError>) -> Option<String> {
    match r { Ok(l) => l.iter().find_map(wf_violation), Err(_) => None }
}
fn fin(v: Option<String>) -> String { v.unwrap_or_else(|| "z(1)".to_string()) }
fn opt_isize(a: &Arg) -> Option<Option<isize>> {
    match a { Arg::N => Some(None), Arg::Z(z) => Some(Some(*z as isize)), _ => None }
}
fn opt_arr<N: Lab>(a: &Arg) -> Option<Option<Array<N>>> {
    match a { Arg::N => Some(None), Arg::A(s, e) => Some(Some(mk::<N>(s, e)?)), _ => None }
}

macro_rules! go_impl { ($fname:ident, $N:ty, $float:expr) => {
fn $fname(name: &str, args: &[Arg]) -> Option<String> {
    type N = $N;
    let (s1, e1) = match args.first() { Some(Arg::A(s, e)) => (s, e), _ => return None };
    let a = mk::<N>(s1, e1)?;
    let r = okr(&a);
    let rest = &args[1..];
    Some(fin(match (name, rest) {
        ("diff", [Arg::Z(n), ax, pre, app]) => ok_or(&a.diff(*n as usize, opt_isize(ax)?, opt_arr::<N>(pre)?, opt_arr::<N>(app)?))
            .or_else(|| ok_or(&r.diff(*n as usize, opt_isize(ax).unwrap(), opt_arr::<N>(pre).unwrap(), opt_arr::<N>(app).unwrap()))),
        ("ediff1d", [end, begin]) => ok_or(&a.ediff1d(opt_arr::<N>(end)?, opt_arr::<N>(begin)?)),
        ("clip", [lo, hi]) => ok_or(&a.clip(opt_arr::<N>(lo)?, opt_arr::<N>(hi)?)).or_else(|| ok_or(&r.clip(opt_arr::<N>(lo).unwrap(), opt_arr::<N>(hi).unwrap()))),
        ("convolve", [Arg::A(s2, e2), mode]) => {
            let b = mk::<N>(s2, e2)?;
            match mode {
                Arg::N => ok_or(&a.convolve(&b, None::<ConvolveMode>)),
                Arg::S(m) => ok_or(&a.convolve(&b, Some(std::str::from_utf8(m).ok()?))).or_else(|| ok_or(&a.convolve(&b, Some(String::from_utf8(m.clone()).ok()?)))),
                _ => return None }
        }
        ("slice", [Arg::Z(lo), Arg::Z(hi)]) => ok_or(&a.slice(*lo as usize..*hi as usize)).or_else(|| ok_or(&r.slice(*lo as usize..*hi as usize))),
        ("indices_at", [Arg::L(ix)]) => ok_or(&a.indices_at(&usizes(ix))).or_else(|| ok_or(&r.indices_at(&usizes(ix)))),
        ("modf", []) => ok_pair(&a.modf()).or_else(|| ok_pair(&r.modf())),
        ("divmod", []) => ok_pair(&a.divmod()),
        ("nan_to_num", []) => ok_or(&a.nan_to_num()),
        // norm with every keepdims form and with / without an axis: only the well-formedness of the answer is judged
        // here (seeded change C01p: keepdims re-labelled the one-element result with a struct literal)
        ("norm", [ord, ax, Arg::Z(kd)]) => {
            let axis = match ax { Arg::N => None, Arg::Z(z) => Some(vec![*z as isize]), Arg::L(l) => Some(isizes(l)), _ => return None };
            let keep = match kd { 0 => None, 1 => Some(false), _ => Some(true) };
            match ord { Arg::N => ok_or(&a.norm(None::<NormOrd>, axis.clone(), keep)).or_else(|| ok_or(&r.norm(None::<NormOrd>, axis, keep))),
                        Arg::Z(99) => ok_or(&a.norm(Some(NormOrd::Inf), axis, keep)),
                        Arg::Z(o) => ok_or(&a.norm(Some(NormOrd::Int(*o as i32)), axis, keep)),
                        Arg::S(m) => ok_or(&a.norm(Some(std::str::from_utf8(m).ok()?), axis, keep)), _ => return None }
        }
        _ => return None,
    }))
}
} }
go_impl!(go_i32, i32, false);
go_impl!(go_i64, i64, false);
go_impl!(go_f64n, f64, true);
go_impl!(go_f32, f32, true);

fn go_float(name: &str, args: &[Arg]) -> Option<String> {
    let (s1, e1) = match args.first() { Some(Arg::A(s, e)) => (s, e), _ => return None };
    let a = mk::<f64>(s1, e1)?;
    let rest = &args[1..];
    Some(fin(match (name, rest) {
        ("sinc", []) => ok_or(&a.sinc()),
        ("i0", []) => ok_or(&a.i0()),
        ("unwrap_phase", [ax]) => ok_or(&a.unwrap_phase(None, opt_isize(ax)?, None)),
        _ => return None,
    }))
}

fn go_f64(name: &str, args: &[Arg]) -> Option<String> {
    let (s1, e1) = match args.first() { Some(Arg::A(s, e)) => (s, e), _ => return None };
    let a = mk::<f64>(s1, e1)?;
    Some(fin(match name {
        "eigvals" => ok_list(&a.eigvals()),
        "eig" => match a.eig() { Ok(l) => l.iter().find_map(|(x, y)| wf_violation(x).or_else(|| wf_violation(y))), Err(_) => None },
        _ => return None,
    }))
}

pub fn dispatch(op: &str, ty: &str, args: &[Arg]) -> Option<String> {
    // `mon`: only well-formedness is judged, a panic produces no array and is fine (C01);
    // `monp`: out-of-domain arguments — a panic is reported (C09: failures are error values)
    if op == "mon" {
        return match std::panic::catch_unwind(std::panic::AssertUnwindSafe(|| dispatch("monp", ty, args))) {
            Ok(r) => r, Err(_) => Some("z(1)".to_string()) };
    }
    // `mone`: the arguments are invalid BY CONSTRUCTION (an unknown option name): anything but an error value is reported
    if op == "mone" {
        let (name, rest) = match args.first() { Some(Arg::S(n)) => (String::from_utf8(n.clone()).ok()?, &args[1..]), _ => return Some("bad".into()) };
        if name == "norm" {
            // an order name that is not one of inf / -inf / fro / nuc / an integer
            let (a, m) = match rest { [Arg::A(s1, e1), Arg::S(m)] => (mk::<f64>(s1, e1)?, String::from_utf8(m.clone()).ok()?), _ => return Some("bad:input".into()) };
            let (ai, r) = (mk::<i32>(match rest { [Arg::A(s1, _), _] => s1, _ => return None }, match rest { [Arg::A(_, e1), _] => e1, _ => return None })?, okr(&a));
            let all_err = a.norm(Some(m.as_str()), None, None).is_err() && r.norm(Some(m.clone()), None, None).is_err()
                && std::panic::catch_unwind(std::panic::AssertUnwindSafe(|| ai.norm(Some(m.as_str()), Some(vec![0]), None).is_err())).unwrap_or(false)
                && a.norm(Some(m.as_str()), Some(vec![0]), None).is_err();
            return Some(if all_err { "z(1)".to_string() } else { "!accepted(an unknown option name gave a successful array or a panic)".to_string() });
        }
        if name != "convolve" { return Some("bad:input".into()) }
        let (a, b, m) = match rest { [Arg::A(s1, e1), Arg::A(s2, e2), Arg::S(m)] => (mk::<f64>(s1, e1)?, mk::<f64>(s2, e2)?, String::from_utf8(m.clone()).ok()?), _ => return Some("bad:input".into()) };
        let r1 = a.convolve(&b, Some(m.as_str()));
        let r2 = okr(&a).convolve(&b, Some(m.clone()));
        return Some(if r1.is_err() && r2.is_err() { "z(1)".to_string() } else { "!accepted(an unknown option name gave a successful array)".to_string() });
    }
    if op != "monp" { return None }
    let (name, rest) = match args.first() { Some(Arg::S(n)) => (String::from_utf8(n.clone()).ok()?, &args[1..]), _ => return Some("bad".into()) };
    let r = if name == "eig" || name == "eigvals" { go_f64(&name, rest) }
        else if name == "sinc" || name == "i0" || name == "unwrap_phase" { go_float(&name, rest) }
        else { match ty { "i32" => go_i32(&name, rest), "i64" => go_i64(&name, rest), "f64" => go_f64n(&name, rest), "f32" => go_f32(&name, rest), _ => None } };
    Some(r.unwrap_or_else(|| "bad:input".to_string()))
}

//! C16: structured constructors
use crate::common::*;
use crate::ops_elem::FromLabel;

fn ou(a: &Arg) -> Option<Option<usize>> { match a { Arg::N => Some(None), Arg::Z(z) => Some(Some(*z as usize)), _ => None } }
fn oi(a: &Arg) -> Option<Option<isize>> { match a { Arg::N => Some(None), Arg::Z(z) => Some(Some(*z as isize)), _ => None } }

fn go<N: FromLabel + Numeric>(op: &str, args: &[Arg]) -> Option<String> where <N as std::str::FromStr>::Err: std::fmt::Debug {
    let mkn = |sh: &Vec<usize>, es: &Vec<i128>| Array::new(es.iter().map(|&x| N::conv(false, x)).collect(), sh.clone()).ok();
    Some(match (op, args) {
        ("full", [Arg::L(sh), Arg::Z(v)]) => res_arr(&Array::<N>::full(usizes(sh), N::conv(false, *v))),
        ("zeros", [Arg::L(sh)]) => res_arr(&Array::<N>::zeros(usizes(sh))),
        ("ones", [Arg::L(sh)]) => res_arr(&Array::<N>::ones(usizes(sh))),
        ("full_like", [Arg::A(s, e), Arg::Z(v)]) => res_arr(&Array::<N>::full_like(&mkn(s, e)?, N::conv(false, *v))),
        ("zeros_like", [Arg::A(s, e)]) => res_arr(&Array::<N>::zeros_like(&mkn(s, e)?)),
        ("ones_like", [Arg::A(s, e)]) => res_arr(&Array::<N>::ones_like(&mkn(s, e)?)),
        ("eye", [Arg::Z(n), m, k]) => res_arr(&Array::<N>::eye(*n as usize, ou(m)?, ou(k)?)),
        ("identity", [Arg::Z(n)]) => res_arr(&Array::<N>::identity(*n as usize)),
        ("tri", [Arg::Z(n), m, k]) => res_arr(&Array::<N>::tri(*n as usize, ou(m)?, oi(k)?)),
        ("tril", [Arg::A(s, e), k]) => res_arr(&mkn(s, e)?.tril(oi(k)?)),
        ("triu", [Arg::A(s, e), k]) => res_arr(&mkn(s, e)?.triu(oi(k)?)),
        ("diag", [Arg::A(s, e), k]) => res_arr(&mkn(s, e)?.diag(oi(k)?)),
        ("diagflat", [Arg::A(s, e), k]) => res_arr(&mkn(s, e)?.diagflat(oi(k)?)),
        ("vander", [Arg::A(s, e), n, Arg::Z(inc)]) => res_arr(&mkn(s, e)?.vander(ou(n)?, Some(*inc == 1))),
        // ---- the constructor macros (same case syntax as the functions, prefix m_) ----
        ("m_zeros", [Arg::L(sh)]) => { let d = usizes(sh); res_arr(&match d.len() {
            1 => array_zeros!(N, d[0]), 2 => array_zeros!(N, d[0], d[1]), 3 => array_zeros!(N, d[0], d[1], d[2]),
            4 => array_zeros!(N, d[0], d[1], d[2], d[3]), _ => return None }) }
        ("m_ones", [Arg::L(sh)]) => { let d = usizes(sh); res_arr(&match d.len() {
            1 => array_ones!(N, d[0]), 2 => array_ones!(N, d[0], d[1]), 3 => array_ones!(N, d[0], d[1], d[2]),
            4 => array_ones!(N, d[0], d[1], d[2], d[3]), _ => return None }) }
        ("m_full", [Arg::L(sh), Arg::Z(v)]) => { let d = usizes(sh); res_arr(&array_full!(N, d, N::conv(false, *v))) }
        ("m_eye", [Arg::Z(n), Arg::N, Arg::N]) => res_arr(&array_eye!(N, *n as usize)),
        ("m_eye", [Arg::Z(n), Arg::Z(m), Arg::N]) => res_arr(&array_eye!(N, *n as usize, *m as usize)),
        ("m_eye", [Arg::Z(n), Arg::Z(m), Arg::Z(k)]) => res_arr(&array_eye!(N, *n as usize, *m as usize, *k as usize)),
        ("m_identity", [Arg::Z(n)]) => res_arr(&array_identity!(N, *n as usize)),
        ("m_arange", [Arg::Z(a), Arg::Z(b), Arg::N]) => res_arr(&array_arange!(N, N::conv(false, *a), N::conv(false, *b))),
        ("m_arange", [Arg::Z(a), Arg::Z(b), Arg::Z(st)]) => res_arr(&array_arange!(N, N::conv(false, *a), N::conv(false, *b), N::conv(false, *st))),
        ("m_single", [Arg::Z(v)]) => res_arr(&array_single!(N, N::conv(false, *v))),
        ("m_flat", [Arg::L(es)]) => { let e: Vec<N> = es.iter().map(|&x| N::conv(false, x)).collect(); res_arr(&match e.len() {
            1 => array_flat!(N, e[0]), 2 => array_flat!(N, e[0], e[1]), 3 => array_flat!(N, e[0], e[1], e[2]),
            4 => array_flat!(N, e[0], e[1], e[2], e[3]), 5 => array_flat!(N, e[0], e[1], e[2], e[3], e[4]),
            6 => array_flat!(N, e[0], e[1], e[2], e[3], e[4], e[5]), _ => return None }) }
        ("arange", [Arg::Z(a), Arg::Z(b), st]) => res_arr(&Array::<N>::arange(N::conv(false, *a), N::conv(false, *b), match st { Arg::N => None, Arg::Z(s) => Some(N::conv(false, *s)), _ => return None })),
        _ => return None,
    })
}

fn bits(v: &[f64]) -> String { format!("f({})", v.iter().map(|x| format!("{:016x}", x.to_bits())).collect::<Vec<_>>().join(",")) }

pub fn dispatch(op: &str, ty: &str, args: &[Arg]) -> Option<String> {
    let r = match op {
        "full" | "zeros" | "ones" | "full_like" | "zeros_like" | "ones_like" | "eye" | "identity" | "tri" | "tril" | "triu"
        | "diag" | "diagflat" | "vander" | "arange" | "m_zeros" | "m_ones" | "m_full" | "m_eye" | "m_identity" | "m_arange"
        | "m_single" | "m_flat" => match ty {
            "i32" => go::<i32>(op, args), "i64" => go::<i64>(op, args), "u8" => go::<u8>(op, args), "f64" => go::<f64>(op, args), "f32" => go::<f32>(op, args), _ => None },
        // float sequences: raw bit patterns of the f64 results; start/stop are given as exact dyadic rationals n/d
        // the sequences for an INTEGER element type (start / stop are whole numbers): every element is the double
        // converted to the element type (seeded change C16m: the two end values were converted first)
        // logspace_a: one sequence per (start, stop, base) triple, laid out as columns
        "linspace_a" | "geomspace_a" => {
            let (st, sp, num, ep) = match args { [Arg::A(s1, e1), Arg::A(s2, e2), Arg::Z(n), Arg::Z(e)] =>
                (Array::<f64>::new(e1.iter().map(|&x| x as f64).collect(), s1.clone()).ok()?, Array::<f64>::new(e2.iter().map(|&x| x as f64).collect(), s2.clone()).ok()?, *n as usize, *e == 1),
                _ => return Some("bad".into()) };
            let r = if op == "linspace_a" { Array::<f64>::linspace_a(&st, &sp, Some(num), Some(ep)) } else { Array::<f64>::geomspace_a(&st, &sp, Some(num), Some(ep)) };
            Some(match r { Ok(a) => match wf_violation(&a) { Some(v) => v, None => format!("{}|{}", shape_str(&a.get_shape().unwrap()), bits(&a.get_elements().unwrap())) }, Err(e) => err_str(&e) })
        }
        "logspace_a" => {
            let (st, sp, num, ep, base) = match args { [Arg::A(s1, e1), Arg::A(s2, e2), Arg::Z(n), Arg::Z(e), b] =>
                (Array::<f64>::new(e1.iter().map(|&x| x as f64).collect(), s1.clone()).ok()?, Array::<f64>::new(e2.iter().map(|&x| x as f64).collect(), s2.clone()).ok()?,
                 *n as usize, *e == 1, match b { Arg::N => None, Arg::A(s3, e3) => Some(Array::<usize>::new(e3.iter().map(|&x| x as usize).collect(), s3.clone()).ok()?), _ => return Some("bad".into()) }),
                _ => return Some("bad".into()) };
            let r = Array::<f64>::logspace_a(&st, &sp, Some(num), Some(ep), base.as_ref());
            Some(match r { Ok(a) => match wf_violation(&a) { Some(v) => v, None => format!("{}|{}", shape_str(&a.get_shape().unwrap()), bits(&a.get_elements().unwrap())) }, Err(e) => err_str(&e) })
        }
        "logspace_t" | "geomspace_t" | "linspace_t" => {
            fn seq<N: FromLabel + Numeric>(op: &str, args: &[Arg]) -> Option<String> {
                let z = |i: usize| match args.get(i) { Some(Arg::Z(n)) => Some(*n), _ => None };
                let (start, stop, num, ep) = (N::conv(false, z(0)?), N::conv(false, z(2)?), z(4)? as usize, z(5)? == 1);
                let r = match op {
                    "logspace_t" => Array::<N>::logspace(start, stop, Some(num), Some(ep), match args.get(6) { Some(Arg::Z(b)) => Some(*b as usize), _ => None }),
                    "geomspace_t" => Array::<N>::geomspace(start, stop, Some(num), Some(ep)),
                    _ => Array::<N>::linspace(start, stop, Some(num), Some(ep)),
                };
                Some(res_arr(&r))
            }
            match ty { "i8" => seq::<i8>(op, args), "i16" => seq::<i16>(op, args), "i32" => seq::<i32>(op, args), "i64" => seq::<i64>(op, args), _ => seq::<u8>(op, args) }
        }
        "linspace" | "logspace" | "geomspace" => {
            let q = |i: usize| match (&args[i], &args[i + 1]) { (Arg::Z(n), Arg::Z(d)) => Some(*n as f64 / *d as f64), _ => None };
            let (start, stop) = (q(0)?, q(2)?);
            let (num, ep) = match (&args[4], &args[5]) { (Arg::Z(n), Arg::Z(e)) => (*n as usize, *e == 1), _ => return Some("bad".into()) };
            let r = match op {
                "linspace" => Array::<f64>::linspace(start, stop, Some(num), Some(ep)),
                "logspace" => Array::<f64>::logspace(start, stop, Some(num), Some(ep), match args.get(6) { Some(Arg::Z(b)) => Some(*b as usize), _ => None }),
                _ => Array::<f64>::geomspace(start, stop, Some(num), Some(ep)),
            };
            Some(match r { Ok(a) => match wf_violation(&a) { Some(v) => v, None => bits(&a.get_elements().unwrap()) }, Err(e) => err_str(&e) })
        }
        "rand" | "m_rand" => match args { [Arg::L(sh)] => {
            let d = usizes(sh);
            let r = if op == "rand" { Array::<f64>::rand(d) } else { match d.len() {
                1 => array_rand!(f64, d[0]), 2 => array_rand!(f64, d[0], d[1]), 3 => array_rand!(f64, d[0], d[1], d[2]),
                4 => array_rand!(f64, d[0], d[1], d[2], d[3]), _ => return Some("bad:input".into()) } };
            Some(match r { Ok(a) => match wf_violation(&a) { Some(v) => v, None => format!("rand({}:{})", shape_str(&a.get_shape().unwrap()),
                a.get_elements().unwrap().iter().all(|x| (0.0..=1.0).contains(x)) as i32) }, Err(e) => err_str(&e) })
        } _ => None },
        _ => return None,
    };
    Some(r.unwrap_or_else(|| "bad:input".to_string()))
}

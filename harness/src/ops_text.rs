//! C18: literals (generated), text forms of arrays, Tuple2 / Tuple3 / List text round trips
use crate::common::*;
use crate::generated_literals::LITS;
use std::str::FromStr;

fn strs(a: &Arg) -> Option<(Vec<usize>, Vec<String>)> {
    match a { Arg::SA(sh, es) => Some((sh.clone(), es.iter().map(|b| String::from_utf8(b.clone()).unwrap()).collect())), _ => None }
}

fn disp<T: ArrayElement + FromStr>(sh: &[usize], es: &[String], prec: Option<usize>, alt: bool) -> Option<String> {
    let elems = es.iter().map(|s| s.parse::<T>().ok()).collect::<Option<Vec<T>>>()?;
    let a = Array::new(elems, sh.to_vec()).ok()?;
    let text = match (prec, alt) {
        (None, false) => format!("{a}"), (None, true) => format!("{a:#}"),
        (Some(p), false) => format!("{a:.p$}"), (Some(p), true) => format!("{a:#.p$}"),
    };
    Some(format!("s({})", hex(text.as_bytes())))
}

pub fn dispatch(op: &str, ty: &str, args: &[Arg]) -> Option<String> {
    let r: Option<String> = match (op, args) {
        ("lit", [Arg::Z(i)]) => {
            let i = *i as usize;
            if i >= LITS.len() { return Some("bad:index".into()); }
            let (text, res) = LITS[i]();
            Some(format!("lit({};{})", hex(text.as_bytes()), res))
        }
        ("lit_count", []) => Some(format!("z({})", LITS.len())),
        ("lit_parse", _) => Some("z(0)".into()),
        ("display", [a, p, Arg::Z(alt)]) => {
            let (sh, es) = strs(a)?;
            let prec = match p { Arg::N => None, Arg::Z(z) => Some(*z as usize), _ => return Some("bad".into()) };
            match ty { "i32" => disp::<i32>(&sh, &es, prec, *alt == 1), "f64" => disp::<f64>(&sh, &es, prec, *alt == 1),
                       "str" => disp::<String>(&sh, &es, prec, *alt == 1), "bool" => disp::<bool>(&sh, &es, prec, *alt == 1), _ => None }
        }
        ("display", [_, p, Arg::Z(alt), raw]) => {
            // the implementation formats the raw values; the first argument holds the renderings the model nests
            let (sh, es) = strs(raw)?;
            let prec = match p { Arg::N => None, Arg::Z(z) => Some(*z as usize), _ => return Some("bad".into()) };
            match ty { "f64" => disp::<f64>(&sh, &es, prec, *alt == 1), "f32" => disp::<f32>(&sh, &es, prec, *alt == 1), _ => None }
        }
        ("tuple_text", [a]) => {
            let (_, es) = strs(a)?;
            let (text, back): (String, Vec<String>) = match es.len() {
                2 => { let t = Tuple2(es[0].clone(), es[1].clone()); let s = format!("{t}");
                       (s.clone(), match Tuple2::<String, String>::from_str(&s) { Ok(u) => vec![u.0, u.1], Err(_) => vec!["<parse error>".into()] }) }
                3 => { let t = Tuple3(es[0].clone(), es[1].clone(), es[2].clone()); let s = format!("{t}");
                       (s.clone(), match Tuple3::<String, String, String>::from_str(&s) { Ok(u) => vec![u.0, u.1, u.2], Err(_) => vec!["<parse error>".into()] }) }
                _ => return Some("bad".into()),
            };
            Some(format!("list(s({});larr(1:{}))", hex(text.as_bytes()), back.iter().map(|s| format!(".{}", hex(s.as_bytes()))).collect::<Vec<_>>().join(";")))
        }
        ("list_text", [a]) => {
            let (_, es) = strs(a)?;
            let l = List(es.clone());
            let s = format!("{l}");
            let back = match List::<String>::from_str(&s) { Ok(u) => u.0, Err(_) => vec!["<parse error>".into()] };
            Some(format!("list(s({});larr(1:{}))", hex(s.as_bytes()), back.iter().map(|s| format!(".{}", hex(s.as_bytes()))).collect::<Vec<_>>().join(";")))
        }
        _ => return None,
    };
    Some(r.unwrap_or_else(|| "bad:input".to_string()))
}

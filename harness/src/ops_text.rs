//! C18: literals (generated), text forms of arrays, Tuple2 / Tuple3 / List text round trips
use crate::common::*;
use crate::generated_literals::LITS;
use std::str::FromStr;

fn strs(a: &Arg) -> Option<(Vec<usize>, Vec<String>)> {
    match a { Arg::SA(sh, es) => Some((sh.clone(), es.iter().map(|b| String::from_utf8(b.clone()).unwrap()).collect())), _ => None }
}

fn disp<T: ArrayElement + FromStr>(sh: &[usize], es: &[String], prec: Option<usize>, alt: bool) -> Option<String> {
    let elems = es.iter().map(|s| s.parse::<T>().ok()).collect::<Option<Vec<T>>>()?;
    let a = Array::new(elems, sh.to_vec()).ok()?;
    let text = match (prec, alt) {
        (None, false) => format!("{a}"), (None, true) => format!("{a:#}"),
        (Some(p), false) => format!("{a:.p$}"), (Some(p), true) => format!("{a:#.p$}"),
    };
    // the Result form (PrintableResult) prints the same text inside Ok(..), with the same precision / pretty flag
    // (seeded change C18m: the wrapper re-formatted the array with a fresh format spec)
    let pr = PrintableResult { result: Ok(a.clone()) };
    let text2 = match (prec, alt) {
        (None, false) => format!("{pr}"), (None, true) => format!("{pr:#}"),
        (Some(p), false) => format!("{pr:.p$}"), (Some(p), true) => format!("{pr:#.p$}"),
    };
    if text2 != format!("Ok({text})") { return Some(format!("!variant(result form {} vs array form {})", hex(text2.as_bytes()), hex(text.as_bytes()))) }
    Some(format!("s({})", hex(text.as_bytes())))
}

pub fn dispatch(op: &str, ty: &str, args: &[Arg]) -> Option<String> {
    let r: Option<String> = match (op, args) {
        ("lit", [Arg::Z(i)]) => {
            let i = *i as usize;
            if i >= LITS.len() { return Some("bad:index".into()); }
            let (text, res) = LITS[i]();
            Some(format!("lit({};{})", hex(text.as_bytes()), res))
        }
        ("lit_count", []) => Some(format!("z({})", LITS.len())),
        ("lit_parse", _) => Some("z(0)".into()),
        ("display", [a, p, Arg::Z(alt)]) => {
            let (sh, es) = strs(a)?;
            let prec = match p { Arg::N => None, Arg::Z(z) => Some(*z as usize), _ => return Some("bad".into()) };
            match ty { "i32" => disp::<i32>(&sh, &es, prec, *alt == 1), "f64" => disp::<f64>(&sh, &es, prec, *alt == 1),
                       "str" => disp::<String>(&sh, &es, prec, *alt == 1), "bool" => disp::<bool>(&sh, &es, prec, *alt == 1),
                       // compound elements: a precision / width given to the array leaves their text as it is
                       "t2" => disp::<Tuple2<i32, i32>>(&sh, &es, prec, *alt == 1), "t3" => disp::<Tuple3<i32, i32, i32>>(&sh, &es, prec, *alt == 1),
                       "t2s" => disp::<Tuple2<String, i32>>(&sh, &es, prec, *alt == 1), "list" => disp::<List<i32>>(&sh, &es, prec, *alt == 1), _ => None }
        }
        ("display", [_, p, Arg::Z(alt), raw]) => {
            // the implementation formats the raw values; the first argument holds the renderings the model nests
            let (sh, es) = strs(raw)?;
            let prec = match p { Arg::N => None, Arg::Z(z) => Some(*z as usize), _ => return Some("bad".into()) };
            match ty { "f64" => disp::<f64>(&sh, &es, prec, *alt == 1), "f32" => disp::<f32>(&sh, &es, prec, *alt == 1), _ => None }
        }
        ("m_single_compound", [a]) => {
            // array_single! with a pair / triple / list element type must agree with Array::single of that value
            let (_, es) = strs(a)?;
            let same = |x: String, y: String| if x == y { "z(1)".to_string() } else { format!("!macro({x} vs function {y})") };
            let show = |t: String| format!("s({})", hex(t.as_bytes()));
            return Some(match (ty, es.len()) {
                ("str", 2) => { let (p, q) = (es[0].clone(), es[1].clone());
                    same(show(format!("{:?}", array_single!(Tuple2<String, String>, (p, q)))), show(format!("{:?}", Array::single(Tuple2(es[0].clone(), es[1].clone()))))) }
                ("str", 3) => { let (p, q, r) = (es[0].clone(), es[1].clone(), es[2].clone());
                    same(show(format!("{:?}", array_single!(Tuple3<String, String, String>, (p, q, r)))), show(format!("{:?}", Array::single(Tuple3(es[0].clone(), es[1].clone(), es[2].clone()))))) }
                ("list", 1) => same(show(format!("{:?}", array_single!(List<String>, vec![es[0].clone()]))), show(format!("{:?}", Array::single(List(es.clone()))))),
                ("list", 2) => same(show(format!("{:?}", array_single!(List<String>, vec![es[0].clone(), es[1].clone()]))), show(format!("{:?}", Array::single(List(es.clone()))))),
                ("list", 3) => same(show(format!("{:?}", array_single!(List<String>, vec![es[0].clone(), es[1].clone(), es[2].clone()]))), show(format!("{:?}", Array::single(List(es.clone()))))),
                ("char", 2) => { let (c, n) = (es[0].chars().next()?, es[1].len() as i32);
                    same(show(format!("{:?}", array_single!(Tuple2<char, i32>, (c, n)))), show(format!("{:?}", Array::single(Tuple2(c, n))))) }
                ("charlist", k) if k >= 1 && k <= 3 => { let cs: Vec<char> = es.iter().filter_map(|s| s.chars().next()).collect(); if cs.len() != k { return Some("bad".into()); }
                    let m = match k { 1 => array_single!(List<char>, vec![cs[0]]), 2 => array_single!(List<char>, vec![cs[0], cs[1]]), _ => array_single!(List<char>, vec![cs[0], cs[1], cs[2]]) };
                    same(show(format!("{:?}", m)), show(format!("{:?}", Array::single(List(cs.clone()))))) }
                _ => "bad".to_string(),
            });
        }
        ("tuple_text", [a]) => {
            let (_, es) = strs(a)?;
            let (text, back): (String, Vec<String>) = match es.len() {
                2 => { let t = Tuple2(es[0].clone(), es[1].clone()); let s = format!("{t}");
                       (s.clone(), match Tuple2::<String, String>::from_str(&s) { Ok(u) => vec![u.0, u.1], Err(_) => vec!["<parse error>".into()] }) }
                3 => { let t = Tuple3(es[0].clone(), es[1].clone(), es[2].clone()); let s = format!("{t}");
                       (s.clone(), match Tuple3::<String, String, String>::from_str(&s) { Ok(u) => vec![u.0, u.1, u.2], Err(_) => vec!["<parse error>".into()] }) }
                _ => return Some("bad".into()),
            };
            Some(format!("list(s({});larr(1:{}))", hex(text.as_bytes()), back.iter().map(|s| format!(".{}", hex(s.as_bytes()))).collect::<Vec<_>>().join(";")))
        }
        ("list_text", [a]) => {
            let (_, es) = strs(a)?;
            let l = List(es.clone());
            let s = format!("{l}");
            let back = match List::<String>::from_str(&s) { Ok(u) => u.0, Err(_) => vec!["<parse error>".into()] };
            Some(format!("list(s({});larr(1:{}))", hex(s.as_bytes()), back.iter().map(|s| format!(".{}", hex(s.as_bytes()))).collect::<Vec<_>>().join(";")))
        }
        _ => return None,
    };
    Some(r.unwrap_or_else(|| "bad:input".to_string()))
}

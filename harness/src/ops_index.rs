//! C02: index_at, index_to_coord, at, Index<&[usize]>, Index<usize>
use crate::common::*;
use crate::with_lab_type;

fn dummy(sh: &[usize]) -> Option<Array<i32>> {
    let n: usize = sh.iter().product();
    Array::new(vec![0; n], sh.to_vec()).ok()
}

pub fn dispatch(op: &str, ty: &str, args: &[Arg]) -> Option<String> {
    Some(match (op, args) {
        ("index_at", [Arg::L(sh), Arg::L(c)]) => match dummy(&usizes(sh)) {
            Some(a) => w2(res_z(&a.index_at(&usizes(c))), res_z(&okr(&a).index_at(&usizes(c)))), None => "bad:input".into() },
        ("index_to_coord", [Arg::L(sh), Arg::Z(i)]) => match dummy(&usizes(sh)) {
            Some(a) => w2(res_l(&a.index_to_coord(*i as usize)), res_l(&okr(&a).index_to_coord(*i as usize))), None => "bad:input".into() },
        ("at", [Arg::A(sh, es), Arg::L(c)]) => with_lab_type!(ty, T, match mk::<T>(sh, es) {
            Some(a) => w2(res_lab(&a.at(&usizes(c))), res_lab(&okr(&a).at(&usizes(c)))), None => "bad:input".into() }),
        ("index_coords", [Arg::A(sh, es), Arg::L(c)]) => with_lab_type!(ty, T, match mk::<T>(sh, es) {
            Some(a) => { let c = usizes(c); format!("z({})", a[&c[..]].to_lab()) } None => "bad:input".into() }),
        ("index_usize", [Arg::A(sh, es), Arg::Z(i)]) => with_lab_type!(ty, T, match mk::<T>(sh, es) {
            Some(a) => format!("z({})", a[*i as usize].to_lab()), None => "bad:input".into() }),
        _ => return None,
    })
}

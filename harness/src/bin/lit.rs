//! Second binary used only by the C18 check: the generated literal program plus the text-form dispatchers.
//! Kept apart from the main harness so that a change in /repo does not force re-expanding 781 array!() literals
//! for every other property.
#![allow(clippy::all)]
#![allow(dead_code)]
#![allow(unused_imports)]

#[path = "../common.rs"] mod common;
#[path = "../ops_text.rs"] mod ops_text;
#[path = "../generated_literals.rs"] mod generated_literals;
#[path = "../ops_elem.rs"] mod ops_elem;
#[path = "../ops_create.rs"] mod ops_create;

use common::*;
use std::io::{BufRead, Write};

fn main() {
    std::panic::set_hook(Box::new(|_| {}));
    let argv: Vec<String> = std::env::args().collect();
    let start: usize = argv.get(2).map_or(0, |s| s.parse().unwrap());
    let file = std::fs::File::open(&argv[1]).expect("case file");
    let out = std::io::stdout();
    let mut out = std::io::BufWriter::new(out.lock());
    for (n, line) in std::io::BufReader::new(file).lines().enumerate() {
        if n < start { continue; }
        let line = line.unwrap();
        if line.is_empty() || line.starts_with('#') { writeln!(out, "{line}").unwrap(); continue; }
        let toks: Vec<&str> = line.split(' ').filter(|t| !t.is_empty()).collect();
        let (op, ty) = match toks[0].split_once('@') { Some((o, t)) => (o, t), None => (toks[0], "i32") };
        let res = match parse_args(&toks[1..]) {
            Ok(args) => {
                out.flush().unwrap();
                match std::panic::catch_unwind(std::panic::AssertUnwindSafe(|| ops_text::dispatch(op, ty, &args).or_else(|| ops_create::dispatch(op, ty, &args)).unwrap_or_else(|| "bad".to_string()))) {
                    Ok(s) => s, Err(_) => "panic".to_string(),
                }
            }
            Err(m) => format!("bad:{m}"),
        };
        writeln!(out, "{res}").unwrap();
    }
    out.flush().unwrap();
}

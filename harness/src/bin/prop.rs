//! Third binary, used only by the C09 check: feeds every ArrayError variant as the receiver of every chainable
//! (Result-receiver) method found by tools/inventory.py and reports whether that same error comes back.
#![allow(clippy::all)]
#![allow(dead_code)]
#![allow(unused_imports)]

#[path = "../generated_propagate.rs"] mod generated_propagate;
use arr_rs::prelude::*;

fn variants() -> Vec<ArrayError> {
    vec![
        ArrayError::BroadcastShapeMismatch, ArrayError::ConcatenateShapeMismatch, ArrayError::ShapeMustMatchValuesLength,
        ArrayError::ShapesMustMatch { shape_1: vec![1, 2], shape_2: vec![2] }, ArrayError::SqueezeShapeOfAxisMustBeOne,
        ArrayError::AxisOutOfBounds, ArrayError::OutOfBounds { value: "probe" },
        ArrayError::ParameterError { param: "probe", message: "probe" }, ArrayError::UnsupportedDimension { supported: vec![7] },
        ArrayError::MustBeUnique { value: "probe".into() }, ArrayError::MustBeEqual { value1: "a".into(), value2: "b".into() },
        ArrayError::MustBeAtLeast { value1: "a".into(), value2: "b".into() }, ArrayError::MustBeOneOf { value1: "a".into(), value2: "b".into() },
        ArrayError::NotImplemented, ArrayError::SingularMatrix,
    ]
}

fn main() {
    std::panic::set_hook(Box::new(|_| {}));
    for (k, e) in variants().iter().enumerate() {
        let r = std::panic::catch_unwind(std::panic::AssertUnwindSafe(|| generated_propagate::propagate(e)));
        match r {
            Ok((n, bad)) => println!("variant {k} {:?}: methods={n} failures={} {}", e, bad.len(), bad.join(" ")),
            Err(_) => println!("variant {k} {:?}: PANIC", e),
        }
    }
    println!("covered={} uncovered={}", generated_propagate::COVERED, generated_propagate::UNCOVERED);
}

//! C03: broadcast, zip, broadcast_to, broadcast_arrays
use crate::common::*;
use crate::with_lab_type;

fn go<T: Lab>(op: &str, args: &[Arg]) -> Option<String> {
    Some(match (op, args) {
        ("broadcast", [Arg::A(s1, e1), Arg::A(s2, e2)]) => {
            let (a, b) = (mk::<T>(s1, e1)?, mk::<T>(s2, e2)?);
            w2(res_parr(&a.broadcast(&b)), res_parr(&okr(&a).broadcast(&b)))
        }
        ("zip", [Arg::A(s1, e1), Arg::A(s2, e2)]) => {
            let (a, b) = (mk::<T>(s1, e1)?, mk::<i64>(s2, e2)?);
            res_parr(&a.zip(&b))
        }
        ("broadcast_to", [Arg::A(s1, e1), Arg::L(sh)]) => { let x = mk::<T>(s1, e1)?; w2(res_arr(&x.broadcast_to(usizes(sh))), res_arr(&okr(&x).broadcast_to(usizes(sh)))) },
        ("broadcast_arrays", [Arg::As(l)]) => {
            let arrs = l.iter().map(|(s, e)| mk::<T>(s, e)).collect::<Option<Vec<_>>>()?;
            res_arrs(&Array::broadcast_arrays(arrs))
        }
        _ => return None,
    })
}

pub fn dispatch(op: &str, ty: &str, args: &[Arg]) -> Option<String> {
    match op { "broadcast" | "zip" | "broadcast_to" | "broadcast_arrays" => {} _ => return None }
    let r: String = with_lab_type!(ty, T, match go::<T>(op, args) { Some(s) => s, None => "bad:input".to_string() });
    Some(r)
}

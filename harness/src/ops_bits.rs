//! C19: unpack_bits, pack_bits, binary_repr
use crate::common::*;

fn opt_isize(a: &Arg) -> Option<Option<isize>> {
    match a { Arg::N => Some(None), Arg::Z(z) => Some(Some(*z as isize)), _ => None }
}

fn repr<N: Numeric>(n: N, width: u32) -> String {
    // the property: the text parses back to the integer (as an unsigned number of the type's width)
    let s = Array::<N>::binary_repr(n);
    format!("l({})", s.chars().map(|c| c.to_string()).collect::<Vec<_>>().join(","))
}

pub fn dispatch(op: &str, _ty: &str, args: &[Arg]) -> Option<String> {
    Some(match (op, args) {
        ("unpack_bits", [Arg::A(sh, es), ax, cnt, o]) => {
            let a = match mk::<u8>(sh, es) { Some(a) => a, None => return Some("bad:input".into()) };
            let (ax, cnt) = (opt_isize(ax)?, opt_isize(cnt)?);
            match o {
                Arg::N => w2(res_arr(&a.unpack_bits(ax, cnt, None::<BitOrder>)), res_arr(&okr(&a).unpack_bits(ax, cnt, None::<BitOrder>))),
                Arg::Z(k) => w2(res_arr(&a.unpack_bits(ax, cnt, Some(if *k == 1 { BitOrder::Little } else { BitOrder::Big }))), res_arr(&okr(&a).unpack_bits(ax, cnt, Some(if *k == 1 { BitOrder::Little } else { BitOrder::Big })))),
                // the order spelled as &str and as an owned String (two separate parsers): both forms, both receivers
                Arg::S(s) => w2(w2(res_arr(&a.unpack_bits(ax, cnt, Some(std::str::from_utf8(s).ok()?))), res_arr(&a.unpack_bits(ax, cnt, Some(String::from_utf8(s.clone()).ok()?)))),
                                w2(res_arr(&okr(&a).unpack_bits(ax, cnt, Some(std::str::from_utf8(s).ok()?))), res_arr(&okr(&a).unpack_bits(ax, cnt, Some(String::from_utf8(s.clone()).ok()?))))),
                _ => return Some("bad".into()),
            }
        }
        ("pack_bits", [Arg::A(sh, es), ax, o]) => {
            let a = match mk::<u8>(sh, es) { Some(a) => a, None => return Some("bad:input".into()) };
            let ax = opt_isize(ax)?;
            match o {
                Arg::N => w2(res_arr(&a.pack_bits(ax, None::<BitOrder>)), res_arr(&okr(&a).pack_bits(ax, None::<BitOrder>))),
                Arg::Z(k) => w2(res_arr(&a.pack_bits(ax, Some(if *k == 1 { BitOrder::Little } else { BitOrder::Big }))), res_arr(&okr(&a).pack_bits(ax, Some(if *k == 1 { BitOrder::Little } else { BitOrder::Big })))),
                Arg::S(s) => w2(w2(res_arr(&a.pack_bits(ax, Some(std::str::from_utf8(s).ok()?))), res_arr(&a.pack_bits(ax, Some(String::from_utf8(s.clone()).ok()?)))),
                                w2(res_arr(&okr(&a).pack_bits(ax, Some(std::str::from_utf8(s).ok()?))), res_arr(&okr(&a).pack_bits(ax, Some(String::from_utf8(s.clone()).ok()?))))),
                _ => return Some("bad".into()),
            }
        }
        ("binary_repr", [Arg::Z(w), Arg::Z(n)]) => match (*w, *n < 0) {
            (8, false) => repr(*n as u8, 8), (8, true) => repr(*n as i8, 8),
            (16, false) => repr(*n as u16, 16), (16, true) => repr(*n as i16, 16),
            (32, false) => repr(*n as u32, 32), (32, true) => repr(*n as i32, 32),
            (64, false) => repr(*n as u64, 64), (64, true) => repr(*n as i64, 64),
            _ => "bad".into(),
        },
        _ => return None,
    })
}

//! C06 / C07: transpose, moveaxis, rollaxis, swapaxes, expand_dims, squeeze, reshape, ravel, atleast,
//! resize, cycle_take, create, new, single, flat, empty
use crate::common::*;
use crate::with_lab_type;

fn opt_isizes(a: &Arg) -> Option<Option<Vec<isize>>> {
    match a { Arg::N => Some(None), Arg::L(l) => Some(Some(isizes(l))), _ => None }
}
fn opt_isize(a: &Arg) -> Option<Option<isize>> {
    match a { Arg::N => Some(None), Arg::Z(z) => Some(Some(*z as isize)), _ => None }
}

fn go<T: Lab>(op: &str, args: &[Arg]) -> Option<String> {
    // constructors first (no input array)
    match (op, args) {
        ("new", [Arg::L(es), Arg::L(sh)]) =>
            return Some(res_arr(&Array::<T>::new(es.iter().map(|&x| T::from_lab(x)).collect(), usizes(sh)))),
        ("create", [Arg::L(es), Arg::L(sh), nd]) => {
            let nd = match nd { Arg::N => None, Arg::Z(z) => Some(*z as usize), _ => return Some("bad".into()) };
            return Some(res_arr(&Array::<T>::create(es.iter().map(|&x| T::from_lab(x)).collect(), usizes(sh), nd)))
        }
        ("single", [Arg::Z(x)]) => return Some(res_arr(&Array::<T>::single(T::from_lab(*x)))),
        ("flat", [Arg::L(es)]) => return Some(res_arr(&Array::<T>::flat(es.iter().map(|&x| T::from_lab(x)).collect()))),
        ("empty", []) => return Some(res_arr(&Array::<T>::empty())),
        // FromIterator from iterators whose size hint is an upper bound only (filter / take_while / skip_while): the
        // collected array is flat and holds exactly the surviving elements (seeded change C01n: shape taken from the hint)
        ("collect_filter", [Arg::L(es), Arg::Z(m), Arg::Z(kind)]) => {
            let keep = |x: &i128| x.rem_euclid(*m) != 0;
            let collected: Array<T> = match kind {
                0 => es.iter().filter(|x| keep(x)).map(|&x| T::from_lab(x)).collect(),
                1 => es.iter().take_while(|x| keep(x)).map(|&x| T::from_lab(x)).collect(),
                2 => es.iter().skip_while(|x| keep(x)).map(|&x| T::from_lab(x)).collect(),
                _ => { let a: Array<T> = es.iter().map(|&x| T::from_lab(x)).collect();
                       let labs = es.clone(); let mut i = 0usize;
                       a.into_iter().filter(|_| { let k = keep(&labs[i]); i += 1; k }).collect() }
            };
            return Some(res_arr(&Ok(collected)))
        }
        _ => {}
    }
    let (sh, es) = match args.first() { Some(Arg::A(sh, es)) => (sh, es), _ => return None };
    let a = match mk::<T>(sh, es) { Some(a) => a, None => return Some("bad:input".into()) };
    Some(match (op, &args[1..]) {
        ("transpose", [ax]) => w2(res_arr(&a.transpose(opt_isizes(ax)?)), res_arr(&okr(&a).transpose(opt_isizes(ax)?))),
        ("moveaxis", [Arg::L(s), Arg::L(d)]) => w2(res_arr(&a.moveaxis(isizes(s), isizes(d))), res_arr(&okr(&a).moveaxis(isizes(s), isizes(d)))),
        ("rollaxis", [Arg::Z(ax), st]) => w2(res_arr(&a.rollaxis(*ax as isize, opt_isize(st)?)), res_arr(&okr(&a).rollaxis(*ax as isize, opt_isize(st)?))),
        ("swapaxes", [Arg::Z(x), Arg::Z(y)]) => w2(res_arr(&a.swapaxes(*x as isize, *y as isize)), res_arr(&okr(&a).swapaxes(*x as isize, *y as isize))),
        ("expand_dims", [Arg::L(ax)]) => w2(res_arr(&a.expand_dims(isizes(ax))), res_arr(&okr(&a).expand_dims(isizes(ax)))),
        ("squeeze", [ax]) => w2(res_arr(&a.squeeze(opt_isizes(ax)?)), res_arr(&okr(&a).squeeze(opt_isizes(ax)?))),
        ("reshape", [Arg::L(s)]) => w2(res_arr(&a.reshape(&usizes(s))), res_arr(&okr(&a).reshape(&usizes(s)))),
        ("ravel", []) => w2(res_arr(&a.ravel()), res_arr(&okr(&a).ravel())),
        ("atleast", [Arg::Z(n)]) => w2(res_arr(&a.atleast(*n as usize)), res_arr(&okr(&a).atleast(*n as usize))),
        ("resize", [Arg::L(s)]) => w2(res_arr(&a.resize(&usizes(s))), res_arr(&okr(&a).resize(&usizes(s)))),
        ("cycle_take", [Arg::Z(n)]) => w2(res_arr(&a.cycle_take(*n as usize)), res_arr(&okr(&a).cycle_take(*n as usize))),
        _ => return None,
    })
}

pub fn dispatch(op: &str, ty: &str, args: &[Arg]) -> Option<String> {
    match op {
        "transpose" | "moveaxis" | "rollaxis" | "swapaxes" | "expand_dims" | "squeeze" | "reshape" | "ravel"
        | "atleast" | "resize" | "cycle_take" | "new" | "create" | "single" | "flat" | "empty" | "collect_filter" => {}
        _ => return None,
    }
    let r: String = with_lab_type!(ty, T, match go::<T>(op, args) { Some(s) => s, None => "bad".to_string() });
    Some(r)
}

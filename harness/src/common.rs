//! argument parsing, element-type adapters, canonical printing, the C01 universal monitor
pub use arr_rs::prelude::*;

#[derive(Clone, Debug)]
pub enum Arg {
    Z(i128),
    N,
    L(Vec<i128>),
    A(Vec<usize>, Vec<i128>),
    As(Vec<(Vec<usize>, Vec<i128>)>),
    S(Vec<u8>),
    SA(Vec<usize>, Vec<Vec<u8>>),
}

fn ints(s: &str, sep: char) -> Result<Vec<i128>, String> {
    if s.is_empty() { return Ok(vec![]); }
    s.split(sep).map(|t| t.parse::<i128>().map_err(|e| format!("{t}:{e}"))).collect()
}

fn unhex(h: &str) -> Result<Vec<u8>, String> {
    (0..h.len() / 2).map(|i| u8::from_str_radix(&h[2 * i..2 * i + 2], 16).map_err(|e| e.to_string())).collect()
}

fn parse_arr(body: &str) -> Result<(Vec<usize>, Vec<i128>), String> {
    let (d, e) = body.split_once(':').unwrap_or((body, ""));
    Ok((ints(d, 'x')?.into_iter().map(|x| x as usize).collect(), ints(e, ',')?))
}

pub fn parse_args(toks: &[&str]) -> Result<Vec<Arg>, String> {
    let mut res = vec![];
    let mut i = 0;
    while i < toks.len() {
        let t = toks[i];
        let body = &t[1..];
        match t.as_bytes()[0] {
            b'z' => res.push(Arg::Z(body.parse::<i128>().map_err(|e| e.to_string())?)),
            b'n' => res.push(Arg::N),
            b'l' => res.push(Arg::L(ints(body, ',')?)),
            b'a' => { let (d, e) = parse_arr(body)?; res.push(Arg::A(d, e)) }
            b's' => res.push(Arg::S(unhex(body)?)),
            b'A' => {
                let (d, e) = body.split_once(':').unwrap_or((body, ""));
                let strs = if e.is_empty() { vec![] } else { e.split(',').map(|t| unhex(&t[1..])).collect::<Result<Vec<_>, _>>()? };
                res.push(Arg::SA(ints(d, 'x')?.into_iter().map(|x| x as usize).collect(), strs))
            }
            b'L' => {
                let k: usize = body.parse().map_err(|_| "bad L".to_string())?;
                let mut arrs = vec![];
                for j in 0..k { arrs.push(parse_arr(&toks[i + 1 + j][1..])?); }
                i += k;
                res.push(Arg::As(arrs))
            }
            _ => return Err(format!("bad token {t}")),
        }
        i += 1;
    }
    Ok(res)
}

/// element types that can carry integer labels
pub trait Lab: ArrayElement {
    fn from_lab(x: i128) -> Self;
    fn to_lab(&self) -> String;
    /// the harness's own conversion of a double to the element type (truncation toward zero, saturation at the
    /// bounds, NaN -> 0: what the documented `value as T` does) — NOT the library's `N::from` (seeded change C04m
    /// made that one wrap around through i64)
    fn cast_ref(v: f64) -> Self;
}
macro_rules! lab_int { ($($t:ty),*) => { $(impl Lab for $t {
    fn from_lab(x: i128) -> Self { x as $t }
    fn to_lab(&self) -> String { format!("{self}") }
    fn cast_ref(v: f64) -> Self { v as $t }
})* } }
lab_int!(i8, i16, i32, i64, u8, u16, u32, u64, isize, usize);

/// pool of interesting doubles; arrays of type f64p / f32p carry indices into it
pub const POOL: [f64; 35] = [0.0, -0.0, 1.0, -1.0, 2.0, 0.5, -2.5, 3.0, 1e300, -1e300, 5e-324, f64::INFINITY, f64::NEG_INFINITY, f64::NAN, 7.25, 100.0, 1e-10, 1.0000000000000002, -7.0, 0.1,
    // cancellation regime, values no f32 represents exactly, the edge of exp's range (labels 20..29)
    1e-17, -1e-10, -1e-17, 1e-5, 4503599627370497.0, 0.9999999999999999, -0.5, 1.5, 1e-30, 710.0,
    // integers of magnitude >= 2^63 (exact in f64): the float bitwise operations cast through a 128-bit integer (labels 30..33)
    9223372036854775808.0, 1180591621816922931200.0, 18446744073710600192.0, 1267650600228229401496703205376.0,
    // the largest double below one half (label 34): adding 0.5 rounds up to 1
    0.49999999999999994];
impl Lab for f64 {
    fn from_lab(x: i128) -> Self { x as f64 }
    fn cast_ref(v: f64) -> Self { v }
    fn to_lab(&self) -> String {
        if self.is_nan() { "nan".into() }
        else if self.fract() == 0.0 && self.abs() < 1e15 && !(*self == 0.0 && self.is_sign_negative()) { format!("{}", *self as i64) }
        else { format!("f{:016x}", self.to_bits()) }
    }
}
impl Lab for f32 {
    fn from_lab(x: i128) -> Self { x as f32 }
    fn cast_ref(v: f64) -> Self { v as f32 }
    fn to_lab(&self) -> String {
        if self.is_nan() { "nan".into() }
        else if self.fract() == 0.0 && self.abs() < 1e7 && !(*self == 0.0 && self.is_sign_negative()) { format!("{}", *self as i64) }
        else { format!("f{:08x}", self.to_bits()) }
    }
}
impl Lab for String {
    fn from_lab(x: i128) -> Self { format!("{x}") }
    fn cast_ref(v: f64) -> Self { format!("{v}") }
    fn to_lab(&self) -> String { self.clone() }
}
/// compound element types (heap-backed: a list, a pair holding a string) carrying the label in their first member
impl Lab for List<i32> {
    fn from_lab(x: i128) -> Self { List(vec![x as i32, 7]) }
    fn to_lab(&self) -> String { self.0.first().map_or("empty".to_string(), |v| v.to_string()) }
    fn cast_ref(v: f64) -> Self { List(vec![v as i32, 7]) }
}
impl Lab for Tuple2<i32, String> {
    fn from_lab(x: i128) -> Self { Tuple2(x as i32, format!("s{x}")) }
    fn to_lab(&self) -> String { if self.1 == format!("s{}", self.0) { self.0.to_string() } else { format!("torn({},{})", self.0, self.1) } }
    fn cast_ref(v: f64) -> Self { Tuple2(v as i32, format!("s{}", v as i32)) }
}
/// pairs of numbers ordered lexicographically: label x is (x div 4, x mod 4), so the order of the labels is the order
/// of the pairs and several pairs share a first member (seeded change C10n: pairs compared by their first member only)
impl Lab for Tuple2<i32, i32> {
    fn from_lab(x: i128) -> Self { Tuple2(x.div_euclid(4) as i32, x.rem_euclid(4) as i32) }
    fn to_lab(&self) -> String { (self.0 as i64 * 4 + self.1 as i64).to_string() }
    fn cast_ref(v: f64) -> Self { Self::from_lab(v as i128) }
}
impl Lab for bool {
    fn from_lab(x: i128) -> Self { x != 0 }
    fn cast_ref(v: f64) -> Self { v != 0.0 }
    fn to_lab(&self) -> String { if *self { "1".into() } else { "0".into() } }
}

pub fn hex(b: &[u8]) -> String { b.iter().map(|x| format!("{x:02x}")).collect() }

pub fn shape_str(sh: &[usize]) -> String { sh.iter().map(|d| d.to_string()).collect::<Vec<_>>().join("x") }

/// name of the error variant, as the evaluator prints it
pub fn err_str(e: &ArrayError) -> String {
    let d = format!("{e:?}");
    let name = d.split(|c: char| c == ' ' || c == '{' || c == '(').next().unwrap_or("").to_string();
    format!("err({name})")
}

/// C01 universal monitor: every array that reaches the printer is checked for
/// len == product(shape), ndim == shape.len(), is_empty == (len == 0), elements.len() == len.
pub fn wf_violation<T: ArrayElement>(a: &Array<T>) -> Option<String> {
    let sh = a.get_shape().unwrap();
    let es = a.get_elements().unwrap();
    let len = a.len().unwrap();
    let nd = a.ndim().unwrap();
    let emp = a.is_empty().unwrap();
    let p: usize = sh.iter().product();
    if es.len() != p || len != es.len() || nd != sh.len() || emp != (len == 0) {
        Some(format!("!wf(shape={sh:?},elements={},len={len},ndim={nd},is_empty={emp})", es.len()))
    } else { None }
}

pub fn arr_str<T: Lab>(a: &Array<T>) -> String {
    if let Some(v) = wf_violation(a) { return v; }
    let sh = a.get_shape().unwrap();
    let es = a.get_elements().unwrap();
    format!("arr({}:{})", shape_str(&sh), es.iter().map(Lab::to_lab).collect::<Vec<_>>().join(","))
}

pub fn sarr_str(a: &Array<String>) -> String {
    if let Some(v) = wf_violation(a) { return v; }
    let sh = a.get_shape().unwrap();
    let es = a.get_elements().unwrap();
    format!("sarr({}:{})", shape_str(&sh), es.iter().map(|s| format!(".{}", hex(s.as_bytes()))).collect::<Vec<_>>().join(","))
}

pub fn res_parr<T: Lab, S: Lab>(r: &Result<Array<Tuple2<T, S>>, ArrayError>) -> String {
    match r {
        Ok(a) => {
            if let Some(v) = wf_violation(a) { return v; }
            let sh = a.get_shape().unwrap();
            let es = a.get_elements().unwrap();
            format!("parr({}:{})", shape_str(&sh), es.iter().map(|t| format!("{}/{}", t.0.to_lab(), t.1.to_lab())).collect::<Vec<_>>().join(","))
        }
        Err(e) => err_str(e),
    }
}

pub fn res_arr<T: Lab>(r: &Result<Array<T>, ArrayError>) -> String {
    match r { Ok(a) => arr_str(a), Err(e) => err_str(e) }
}
pub fn res_arrs<T: Lab>(r: &Result<Vec<Array<T>>, ArrayError>) -> String {
    match r { Ok(l) => format!("list({})", l.iter().map(arr_str).collect::<Vec<_>>().join(";")), Err(e) => err_str(e) }
}
pub fn res_z<X: std::fmt::Display>(r: &Result<X, ArrayError>) -> String {
    match r { Ok(x) => format!("z({x})"), Err(e) => err_str(e) }
}
pub fn res_l<X: std::fmt::Display>(r: &Result<Vec<X>, ArrayError>) -> String {
    match r { Ok(l) => format!("l({})", l.iter().map(|x| x.to_string()).collect::<Vec<_>>().join(",")), Err(e) => err_str(e) }
}
pub fn res_lab<T: Lab>(r: &Result<T, ArrayError>) -> String {
    match r { Ok(x) => format!("z({})", x.to_lab()), Err(e) => err_str(e) }
}

/// builds an input array; inputs are expected to be well formed (generator contract)
pub fn mk<T: Lab>(sh: &[usize], es: &[i128]) -> Option<Array<T>> {
    Array::new(es.iter().map(|&x| T::from_lab(x)).collect(), sh.to_vec()).ok()
}

pub fn usizes(l: &[i128]) -> Vec<usize> { l.iter().map(|&x| x as usize).collect() }
pub fn isizes(l: &[i128]) -> Vec<isize> { l.iter().map(|&x| x as isize).collect() }

/// run `$body` with `$T` bound to the element type named by the tag
#[macro_export]
macro_rules! with_lab_type {
    ($ty:expr, $T:ident, $body:expr) => {
        match $ty {
            "i32" => { type $T = i32; $body }
            "i64" => { type $T = i64; $body }
            "u8" => { type $T = u8; $body }
            "f64" => { type $T = f64; $body }
            "str" => { type $T = String; $body }
            // further element types for the operations that are generic in the element (labels must fit the type)
            "f32" => { type $T = f32; $body }
            "i8" => { type $T = i8; $body }
            "i16" => { type $T = i16; $body }
            "u16" => { type $T = u16; $body }
            "u64" => { type $T = u64; $body }
            "list" => { type $T = List<i32>; $body }
            "pair" => { type $T = Tuple2<i32, String>; $body }
            "pairk" => { type $T = Tuple2<i32, i32>; $body }
            _ => "bad:type".to_string(),
        }
    };
}

/// every operation is also called through its `Result` receiver (the chaining form); the two answers must coincide
pub fn okr<T: ArrayElement>(a: &Array<T>) -> Result<Array<T>, ArrayError> { Ok(a.clone()) }
pub fn w2(plain: String, wrapped: String) -> String {
    if plain == wrapped { plain } else { format!("!variant(first form {plain} / second form [Result receiver or other argument spelling] {wrapped})") }
}

thread_local! { pub static WRAP_MISMATCH: std::cell::Cell<bool> = const { std::cell::Cell::new(false) }; }
/// the plain result, after comparing it (as text: NaN-safe) with the result through the `Result` receiver
pub fn wr<T: Lab>(plain: Result<Array<T>, ArrayError>, wrapped: Result<Array<T>, ArrayError>) -> Result<Array<T>, ArrayError> {
    if res_arr(&plain) != res_arr(&wrapped) { WRAP_MISMATCH.with(|f| f.set(true)); }
    plain
}

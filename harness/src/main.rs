//! Correspondence-check harness: maps every case line to one canonical result line by calling
//! the public API of the arr-rs working tree at /repo.  Same line syntax as eval/driver.ml.
#![allow(clippy::all)]
#![allow(dead_code)]
#![allow(unused_imports)]

mod common;
mod ops_index;
mod ops_axis;
mod ops_broadcast;
mod ops_elem;
mod ops_reduce;
mod ops_bits;
mod ops_linalg;
mod ops_create;
mod ops_str;
mod ops_monitor;

use common::*;
use std::io::{BufRead, Write};

fn dispatch(op: &str, ty: &str, args: &[Arg]) -> String {
    if let Some(r) = ops_monitor::dispatch(op, ty, args) { return r; }
    if let Some(r) = ops_index::dispatch(op, ty, args) { return r; }
    if let Some(r) = ops_axis::dispatch(op, ty, args) { return r; }
    if let Some(r) = ops_broadcast::dispatch(op, ty, args) { return r; }
    if let Some(r) = ops_reduce::dispatch(op, ty, args) { return r; }
    if let Some(r) = ops_bits::dispatch(op, ty, args) { return r; }
    if let Some(r) = ops_linalg::dispatch(op, ty, args) { return r; }
    if let Some(r) = ops_create::dispatch(op, ty, args) { return r; }
    if let Some(r) = ops_str::dispatch(op, ty, args) { return r; }
    if let Some(r) = ops_elem::dispatch(op, ty, args) { return r; }
    "bad".to_string()
}

fn main() {
    std::panic::set_hook(Box::new(|_| {}));
    let argv: Vec<String> = std::env::args().collect();
    let path = &argv[1];
    let start: usize = argv.get(2).map_or(0, |s| s.parse().unwrap());
    let file = std::fs::File::open(path).expect("case file");
    let out = std::io::stdout();
    let mut out = std::io::BufWriter::new(out.lock());
    for (n, line) in std::io::BufReader::new(file).lines().enumerate() {
        if n < start { continue; }
        let line = line.unwrap();
        if line.is_empty() || line.starts_with('#') {
            writeln!(out, "{line}").unwrap();
            continue;
        }
        let toks: Vec<&str> = line.split(' ').filter(|t| !t.is_empty()).collect();
        let (op, ty) = match toks[0].split_once('@') { Some((o, t)) => (o, t), None => (toks[0], "i32") };
        let res = match parse_args(&toks[1..]) {
            Ok(args) => {
                // flush before a call that may hang, so that the watchdog knows where we are
                out.flush().unwrap();
                WRAP_MISMATCH.with(|f| f.set(false));
                match std::panic::catch_unwind(std::panic::AssertUnwindSafe(|| dispatch(op, ty, &args))) {
                    Ok(s) if WRAP_MISMATCH.with(|f| f.get()) => format!("!wrapper(the Result receiver answers differently; plain: {s})"),
                    Ok(s) => s,
                    Err(_) => "panic".to_string(),
                }
            }
            Err(m) => format!("bad:{m}"),
        };
        writeln!(out, "{res}").unwrap();
    }
    out.flush().unwrap();
}

//! C14 / C15: products, solve, det, qr, norm
use crate::common::*;
use crate::ops_elem::FromLabel;

fn go<N: FromLabel + NumericOps>(op: &str, args: &[Arg]) -> Option<String> {
    // sym_* cases carry indices into the float pool (NaN, infinities, fractions, huge and tiny values)
    let (pool, op) = match op.strip_prefix("sym_") { Some(rest) => (true, rest), None => (false, op) };
    let mkn = |sh: &Vec<usize>, es: &Vec<i128>| Array::new(es.iter().map(|&x| N::conv(pool, x)).collect(), sh.clone()).ok();
    let (a, b) = match args { [Arg::A(s1, e1), Arg::A(s2, e2)] => (mkn(s1, e1)?, mkn(s2, e2)?), _ => return None };
    Some(match op {
        "vdot" => w2(res_arr(&a.vdot(&b)), res_arr(&okr(&a).vdot(&b))), "inner" => w2(res_arr(&a.inner(&b)), res_arr(&okr(&a).inner(&b))), "outer" => w2(res_arr(&a.outer(&b)), res_arr(&okr(&a).outer(&b))),
        "matmul" | "matmul_pinned" => w2(res_arr(&a.matmul(&b)), res_arr(&okr(&a).matmul(&b))),
        "dot" | "dot_pinned" => w2(res_arr(&a.dot(&b)), res_arr(&okr(&a).dot(&b))),
        _ => return None,
    })
}

fn fbits(a: &Array<f64>) -> String {
    if let Some(v) = wf_violation(a) { return v; }
    format!("f({}:{})", shape_str(&a.get_shape().unwrap()), a.get_elements().unwrap().iter().map(|x| format!("{:016x}", x.to_bits())).collect::<Vec<_>>().join(","))
}
fn rf(r: &Result<Array<f64>, ArrayError>) -> String { match r { Ok(a) => fbits(a), Err(e) => err_str(e) } }

/// C15: integer entries (exact in f64); results as raw f64 bit patterns
fn go15(op: &str, args: &[Arg]) -> Option<String> {
    let mkf = |sh: &Vec<usize>, es: &Vec<i128>| Array::new(es.iter().map(|&x| x as f64).collect(), sh.clone()).ok();
    Some(match (op, args) {
        ("solve", [Arg::A(s1, e1), Arg::A(s2, e2)]) => rf(&mkf(s1, e1)?.solve(&mkf(s2, e2)?)),
        ("solve", [Arg::A(s1, e1), Arg::A(s2, e2), Arg::Z(sc)]) => {
            let a = Array::new(e1.iter().map(|&x| x as f64 / *sc as f64).collect(), s1.clone()).ok()?;
            rf(&a.solve(&mkf(s2, e2)?))
        }
        ("det", [Arg::A(s1, e1)]) | ("detstack", [Arg::A(s1, e1)]) => rf(&mkf(s1, e1)?.det()),
        ("qr", [Arg::A(s1, e1)]) => match mkf(s1, e1)?.qr() {
            Ok(v) => format!("list({})", v.iter().map(|(q, r)| format!("{};{}", fbits(q), fbits(r))).collect::<Vec<_>>().join(";")),
            Err(e) => err_str(&e) },
        ("norm", [Arg::A(s1, e1), ord]) => {
            let a = mkf(s1, e1)?;
            match ord {
                Arg::N => rf(&a.norm(None::<NormOrd>, None, None)),
                Arg::Z(1) => rf(&a.norm(Some(NormOrd::Int(1)), None, None)),
                Arg::Z(2) => rf(&a.norm(Some(NormOrd::Int(2)), None, None)),
                Arg::Z(99) => rf(&a.norm(Some(NormOrd::Inf), None, None)),
                Arg::S(s) => w2(rf(&a.norm(Some(std::str::from_utf8(s).ok()?), None, None)), rf(&a.norm(Some(String::from_utf8(s.clone()).ok()?), None, None))),
                _ => return None }
        }
        _ => return None,
    })
}

/// vector norms along an axis for any numeric element type (the two-norm of an integer lane is the root of the sum of
/// squares converted to the type — seeded change C15n: the general p-norm arm took the exponent 1/2 in the element type)
fn norm_ax<N: FromLabel + NumericOps>(args: &[Arg]) -> Option<String> {
    let (s1, e1, ord, ax) = match args { [Arg::A(s1, e1), ord, Arg::Z(ax)] => (s1, e1, ord, *ax as isize), _ => return None };
    let a = Array::<N>::new(e1.iter().map(|&x| N::conv(false, x)).collect(), s1.clone()).ok()?;
    let axis = Some(vec![ax]);
    Some(match ord {
        Arg::N => res_arr(&a.norm(None::<NormOrd>, axis, None)),
        Arg::Z(1) => res_arr(&a.norm(Some(NormOrd::Int(1)), axis, None)),
        Arg::Z(2) => w2(res_arr(&a.norm(Some(NormOrd::Int(2)), axis.clone(), None)), res_arr(&a.norm(Some("2"), axis, None))),
        Arg::Z(99) => w2(res_arr(&a.norm(Some(NormOrd::Inf), axis.clone(), None)), res_arr(&a.norm(Some("inf"), axis, None))),
        _ => return None })
}

pub fn dispatch(op: &str, ty: &str, args: &[Arg]) -> Option<String> {
    if op == "solve_t" {
        // solve on integer element types: a singular matrix is refused (seeded change C15p: the tolerance taken in the
        // element type is 0 for integers)
        fn st<N: FromLabel + NumericOps>(args: &[Arg]) -> Option<String> {
            let (s1, e1, s2, e2) = match args { [Arg::A(s1, e1), Arg::A(s2, e2)] => (s1, e1, s2, e2), _ => return None };
            let a = Array::<N>::new(e1.iter().map(|&x| N::conv(false, x)).collect(), s1.clone()).ok()?;
            let b = Array::<N>::new(e2.iter().map(|&x| N::conv(false, x)).collect(), s2.clone()).ok()?;
            Some(w2(res_arr(&a.solve(&b)), res_arr(&okr(&a).solve(&b))))
        }
        let r = match ty { "i8" => st::<i8>(args), "i16" => st::<i16>(args), "i32" => st::<i32>(args), "i64" => st::<i64>(args), "f32" => st::<f32>(args), _ => st::<f64>(args) };
        return Some(r.unwrap_or_else(|| "bad:input".to_string()));
    }
    if op == "norm_ax" {
        let r = match ty { "i8" => norm_ax::<i8>(args), "i16" => norm_ax::<i16>(args), "i32" => norm_ax::<i32>(args), "i64" => norm_ax::<i64>(args),
                           "f32" => norm_ax::<f32>(args), _ => norm_ax::<f64>(args) };
        return Some(r.unwrap_or_else(|| "bad:input".to_string()));
    }
    if let "solve" | "det" | "detstack" | "qr" | "norm" = op { return Some(go15(op, args).unwrap_or_else(|| "bad:input".to_string())); }
    match op { "vdot" | "inner" | "outer" | "matmul" | "matmul_pinned" | "dot" | "dot_pinned"
               | "sym_vdot" | "sym_inner" | "sym_outer" | "sym_matmul" | "sym_dot" => {} _ => return None }
    let r = match ty { "i32" => go::<i32>(op, args), "i64" => go::<i64>(op, args), "i16" => go::<i16>(op, args), "i8" => go::<i8>(op, args), "f64" | "f64p" => go::<f64>(op, args),
                       "f32" | "f32p" => go::<f32>(op, args), _ => None };
    Some(r.unwrap_or_else(|| "bad:input".to_string()))
}

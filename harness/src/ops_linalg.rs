//! C14 / C15: products, solve, det, qr, norm
use crate::common::*;
use crate::ops_elem::FromLabel;

fn go<N: FromLabel + NumericOps>(op: &str, args: &[Arg]) -> Option<String> {
    let mkn = |sh: &Vec<usize>, es: &Vec<i128>| Array::new(es.iter().map(|&x| N::conv(false, x)).collect(), sh.clone()).ok();
    let (a, b) = match args { [Arg::A(s1, e1), Arg::A(s2, e2)] => (mkn(s1, e1)?, mkn(s2, e2)?), _ => return None };
    Some(match op {
        "vdot" => res_arr(&a.vdot(&b)), "inner" => res_arr(&a.inner(&b)), "outer" => res_arr(&a.outer(&b)),
        "matmul" | "matmul_pinned" => res_arr(&a.matmul(&b)),
        "dot" | "dot_pinned" => res_arr(&a.dot(&b)),
        _ => return None,
    })
}

pub fn dispatch(op: &str, ty: &str, args: &[Arg]) -> Option<String> {
    match op { "vdot" | "inner" | "outer" | "matmul" | "matmul_pinned" | "dot" | "dot_pinned" => {} _ => return None }
    let r = match ty { "i32" => go::<i32>(op, args), "i64" => go::<i64>(op, args), "f64" => go::<f64>(op, args), "f32" => go::<f32>(op, args), _ => None };
    Some(r.unwrap_or_else(|| "bad:input".to_string()))
}

//! C17: string arrays
use crate::common::*;

fn sa(a: &Arg) -> Option<Array<String>> {
    match a { Arg::SA(sh, es) => Array::new(es.iter().map(|b| String::from_utf8(b.clone()).unwrap()).collect(), sh.clone()).ok(), _ => None }
}
fn osa(a: &Arg) -> Option<Option<Array<String>>> { match a { Arg::N => Some(None), _ => sa(a).map(Some) } }
fn ua(a: &Arg) -> Option<Array<usize>> { match a { Arg::A(sh, es) => Array::new(es.iter().map(|&x| x as usize).collect(), sh.clone()).ok(), _ => None } }
fn oua(a: &Arg) -> Option<Option<Array<usize>>> { match a { Arg::N => Some(None), _ => ua(a).map(Some) } }
fn oca(a: &Arg) -> Option<Option<Array<char>>> {
    match a { Arg::N => Some(None), Arg::A(sh, es) => Array::new(es.iter().map(|&x| x as u8 as char).collect(), sh.clone()).ok().map(Some), _ => None }
}
fn oba(a: &Arg) -> Option<Option<Array<bool>>> {
    match a { Arg::N => Some(None), Arg::A(sh, es) => Array::new(es.iter().map(|&x| x != 0).collect(), sh.clone()).ok().map(Some), _ => None }
}

fn res_sarr(r: &Result<Array<String>, ArrayError>) -> String { match r { Ok(a) => sarr_str(a), Err(e) => err_str(e) } }
fn res_num<X: ArrayElement + std::fmt::Display>(r: &Result<Array<X>, ArrayError>) -> String {
    match r {
        Ok(a) => { if let Some(v) = wf_violation(a) { return v; }
            format!("arr({}:{})", shape_str(&a.get_shape().unwrap()), a.get_elements().unwrap().iter().map(|x| x.to_string()).collect::<Vec<_>>().join(",")) }
        Err(e) => err_str(e),
    }
}
fn res_bool(r: &Result<Array<bool>, ArrayError>) -> String {
    match r {
        Ok(a) => { if let Some(v) = wf_violation(a) { return v; }
            format!("arr({}:{})", shape_str(&a.get_shape().unwrap()), a.get_elements().unwrap().iter().map(|x| (*x as i32).to_string()).collect::<Vec<_>>().join(",")) }
        Err(e) => err_str(e),
    }
}
fn items(l: &[String]) -> String { l.iter().map(|s| format!(".{}", hex(s.as_bytes()))).collect::<Vec<_>>().join(";") }
fn res_list(r: &Result<Array<List<String>>, ArrayError>) -> String {
    match r {
        Ok(a) => { if let Some(v) = wf_violation(a) { return v; }
            format!("larr({}:{})", shape_str(&a.get_shape().unwrap()), a.get_elements().unwrap().iter().map(|l| items(&l.0)).collect::<Vec<_>>().join(",")) }
        Err(e) => err_str(e),
    }
}
fn res_t3(r: &Result<Array<Tuple3<String, String, String>>, ArrayError>) -> String {
    match r {
        Ok(a) => { if let Some(v) = wf_violation(a) { return v; }
            format!("larr({}:{})", shape_str(&a.get_shape().unwrap()), a.get_elements().unwrap().iter()
                .map(|t| items(&[t.0.clone(), t.1.clone(), t.2.clone()])).collect::<Vec<_>>().join(",")) }
        Err(e) => err_str(e),
    }
}

pub fn dispatch(op: &str, _ty: &str, args: &[Arg]) -> Option<String> {
    if !op.starts_with("s_") { return None; }
    let r: Option<String> = (|| {
        let a = sa(args.first()?)?;
        Some(match (&op[2..], &args[1..]) {
            ("add", [b]) => w2(res_sarr(&ArrayStringManipulate::add(&a, &sa(b)?)), res_sarr(&ArrayStringManipulate::add(&okr(&a), &sa(b)?))),
            ("join", [b]) => w2(res_sarr(&a.join(&sa(b)?)), res_sarr(&okr(&a).join(&sa(b)?))),
            ("partition", [b]) => w2(res_t3(&a.partition(&sa(b)?)), res_t3(&okr(&a).partition(&sa(b)?))),
            ("rpartition", [b]) => w2(res_t3(&a.rpartition(&sa(b)?)), res_t3(&okr(&a).rpartition(&sa(b)?))),
            ("count", [b]) => w2(res_num(&ArrayStringIndexing::count(&a, &sa(b)?)), res_num(&ArrayStringIndexing::count(&okr(&a), &sa(b)?))),
            ("starts_with", [b]) => w2(res_bool(&a.starts_with(&sa(b)?)), res_bool(&okr(&a).starts_with(&sa(b)?))),
            ("ends_with", [b]) => w2(res_bool(&a.ends_with(&sa(b)?)), res_bool(&okr(&a).ends_with(&sa(b)?))),
            ("find", [b]) => w2(res_num(&a.find(&sa(b)?)), res_num(&okr(&a).find(&sa(b)?))), ("rfind", [b]) => w2(res_num(&a.rfind(&sa(b)?)), res_num(&okr(&a).rfind(&sa(b)?))),
            ("index", [b]) => w2(res_num(&a.index(&sa(b)?)), res_num(&okr(&a).index(&sa(b)?))), ("rindex", [b]) => w2(res_num(&a.rindex(&sa(b)?)), res_num(&okr(&a).rindex(&sa(b)?))),
            ("equal", [b]) => w2(res_bool(&ArrayStringCompare::equal(&a, &sa(b)?)), res_bool(&ArrayStringCompare::equal(&okr(&a), &sa(b)?))),
            ("not_equal", [b]) => w2(res_bool(&ArrayStringCompare::not_equal(&a, &sa(b)?)), res_bool(&ArrayStringCompare::not_equal(&okr(&a), &sa(b)?))),
            ("less", [b]) => w2(res_bool(&ArrayStringCompare::less(&a, &sa(b)?)), res_bool(&ArrayStringCompare::less(&okr(&a), &sa(b)?))),
            ("less_equal", [b]) => w2(res_bool(&ArrayStringCompare::less_equal(&a, &sa(b)?)), res_bool(&ArrayStringCompare::less_equal(&okr(&a), &sa(b)?))),
            ("greater", [b]) => w2(res_bool(&ArrayStringCompare::greater(&a, &sa(b)?)), res_bool(&ArrayStringCompare::greater(&okr(&a), &sa(b)?))),
            ("greater_equal", [b]) => w2(res_bool(&ArrayStringCompare::greater_equal(&a, &sa(b)?)), res_bool(&ArrayStringCompare::greater_equal(&okr(&a), &sa(b)?))),
            ("capitalize", []) => w2(res_sarr(&a.capitalize()), res_sarr(&okr(&a).capitalize())), ("lower", []) => w2(res_sarr(&a.lower()), res_sarr(&okr(&a).lower())),
            ("upper", []) => w2(res_sarr(&a.upper()), res_sarr(&okr(&a).upper())), ("swapcase", []) => w2(res_sarr(&a.swapcase()), res_sarr(&okr(&a).swapcase())),
            ("str_len", []) => w2(res_num(&a.str_len()), res_num(&okr(&a).str_len())),
            ("is_alpha", []) => w2(res_bool(&a.is_alpha()), res_bool(&okr(&a).is_alpha())), ("is_alnum", []) => w2(res_bool(&a.is_alnum()), res_bool(&okr(&a).is_alnum())),
            ("is_decimal", []) => w2(res_bool(&a.is_decimal()), res_bool(&okr(&a).is_decimal())), ("is_numeric", []) => w2(res_bool(&a.is_numeric()), res_bool(&okr(&a).is_numeric())),
            ("is_digit", []) => w2(res_bool(&a.is_digit()), res_bool(&okr(&a).is_digit())), ("is_space", []) => w2(res_bool(&a.is_space()), res_bool(&okr(&a).is_space())),
            ("is_lower", []) => w2(res_bool(&a.is_lower()), res_bool(&okr(&a).is_lower())), ("is_upper", []) => w2(res_bool(&a.is_upper()), res_bool(&okr(&a).is_upper())),
            ("lstrip", [c]) => w2(res_sarr(&a.lstrip(osa(c)?)), res_sarr(&okr(&a).lstrip(osa(c)?))), ("rstrip", [c]) => w2(res_sarr(&a.rstrip(osa(c)?)), res_sarr(&okr(&a).rstrip(osa(c)?))),
            ("strip", [c]) => w2(res_sarr(&a.strip(osa(c)?)), res_sarr(&okr(&a).strip(osa(c)?))),
            ("multiply", [n]) => w2(res_sarr(&ArrayStringManipulate::multiply(&a, &ua(n)?)), res_sarr(&ArrayStringManipulate::multiply(&okr(&a), &ua(n)?))),
            ("splitlines", [k]) => w2(res_list(&a.splitlines(oba(k)?)), res_list(&okr(&a).splitlines(oba(k)?))),
            ("center", [w, f]) => w2(res_sarr(&a.center(&ua(w)?, oca(f)?)), res_sarr(&okr(&a).center(&ua(w)?, oca(f)?))),
            ("ljust", [w, f]) => w2(res_sarr(&a.ljust(&ua(w)?, oca(f)?)), res_sarr(&okr(&a).ljust(&ua(w)?, oca(f)?))),
            ("rjust", [w, f]) => w2(res_sarr(&a.rjust(&ua(w)?, oca(f)?)), res_sarr(&okr(&a).rjust(&ua(w)?, oca(f)?))),
            ("split", [s, l]) => w2(res_list(&ArrayStringManipulate::split(&a, osa(s)?, oua(l)?)), res_list(&ArrayStringManipulate::split(&okr(&a), osa(s)?, oua(l)?))),
            ("rsplit", [s, l]) => w2(res_list(&a.rsplit(osa(s)?, oua(l)?)), res_list(&okr(&a).rsplit(osa(s)?, oua(l)?))),
            ("compare", [b, Arg::S(name)]) => w2(w2(res_bool(&a.compare(&sa(b)?, std::str::from_utf8(name).ok()?)), res_bool(&a.compare(&sa(b)?, String::from_utf8(name.clone()).ok()?))),
                                                 w2(res_bool(&okr(&a).compare(&sa(b)?, std::str::from_utf8(name).ok()?)), res_bool(&okr(&a).compare(&sa(b)?, String::from_utf8(name.clone()).ok()?)))),
            ("translate", [Arg::L(tbl)]) => w2(res_sarr(&a.translate(tbl.chunks(2).filter(|p| p.len() == 2)
                .map(|p| (char::from(p[0] as u8), char::from(p[1] as u8))).collect())), res_sarr(&okr(&a).translate(tbl.chunks(2).filter(|p| p.len() == 2)
                .map(|p| (char::from(p[0] as u8), char::from(p[1] as u8))).collect()))),
            ("zfill", [Arg::Z(w)]) => w2(res_sarr(&a.zfill(*w as usize)), res_sarr(&okr(&a).zfill(*w as usize))),
            ("replace", [o, n, c]) => w2(res_sarr(&a.replace(&sa(o)?, &sa(n)?, match c { Arg::N => None, Arg::Z(z) => Some(*z as usize), _ => return None })), res_sarr(&okr(&a).replace(&sa(o)?, &sa(n)?, match c { Arg::N => None, Arg::Z(z) => Some(*z as usize), _ => return None }))),
            _ => return None,
        })
    })();
    Some(r.unwrap_or_else(|| "bad:input".to_string()))
}

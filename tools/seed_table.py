#!/usr/bin/env python3
"""Rewrites the table of DESIGN.md section 8 (between the SEEDED-TABLE markers) from seeded/*/meta.json."""
import json, glob, os, re
root = os.path.dirname(os.path.dirname(os.path.abspath(__file__)))
rows = []
for p in sorted(glob.glob(os.path.join(root, "seeded", "*", "meta.json"))):
    m = json.load(open(p))
    caught = ", ".join(c.replace("bin/check ", "") for c in m["checks_run"]["caught_by"]) or "MISSED"
    if m["checks_run"].get("initially_missed"):
        caught += " (after strengthening)"
    rows.append(f"| `{m['id']}` | {m['summary']} | {m['needs_to_manifest']} | {caught} |")
table = "| seeded change | what it does | needs | caught by |\n|---|---|---|---|\n" + "\n".join(rows)
d = os.path.join(root, "DESIGN.md")
s = open(d).read()
s2 = re.sub(r"<!-- SEEDED-TABLE-BEGIN -->.*<!-- SEEDED-TABLE-END -->",
            "<!-- SEEDED-TABLE-BEGIN -->\n" + table + "\n<!-- SEEDED-TABLE-END -->", s, flags=re.S)
open(d, "w").write(s2)
missed = sum(1 for r in rows if "after strengthening" in r)
print(len(rows), "seeded changes,", missed, "missed at first")

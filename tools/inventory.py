#!/usr/bin/env python3
"""Inventory of the chainable (Result-receiver) methods of arr-rs and generator of the C09 propagation program.

Parses every `impl ... Trait<..> for Result<Array<..>, ArrayError>` block under /repo/src, extracts the method
signatures and writes harness/src/generated_propagate.rs: for every method whose argument types it knows how to
fill with a dummy value, a function that calls the method on `Err(e)` receivers and reports whether the SAME error
comes back.  Methods it cannot call (closures, exotic argument types) are listed as uncovered — coverage is
measured, not assumed."""
import os, re, sys, json

REPO = "/repo/src"
ROOT = os.path.dirname(os.path.dirname(os.path.abspath(__file__)))
OUT = os.path.join(ROOT, "harness", "src", "generated_propagate.rs")


def split_args(s):
    out, depth, cur = [], 0, ""
    for ch in s:
        if ch in "<([":
            depth += 1
        elif ch in ">)]":
            depth -= 1
        if ch == "," and depth == 0:
            out.append(cur.strip()); cur = ""
        else:
            cur += ch
    if cur.strip():
        out.append(cur.strip())
    return out


def dummy(ty, elem):
    """a Rust expression of the given argument type, or None"""
    ty = ty.strip()
    ty = ty.replace("Self", f"Array<{elem}>") if ty in ("&Self", "Self") else ty
    table = {
        "usize": "1", "isize": "0", "bool": "false", "i32": "1", "f64": "1.0",
        "&[usize]": "&[0usize]", "Vec<usize>": "vec![1usize]", "Vec<isize>": "vec![0isize]",
        "&[isize]": "&[0isize]", "Option<usize>": "None", "Option<isize>": "None", "Option<bool>": "None",
        "Option<Vec<isize>>": "None", "Option<Vec<usize>>": "None", "std::ops::Range<usize>": "0..1",
        "Vec<(char, char)>": "vec![]", "Option<char>": "None", "char": "'a'",
    }
    if ty in table:
        return table[ty]
    m = re.match(r"^&Array<(.+)>$", ty)
    if m:
        return f"&other::<{m.group(1).replace('N', elem).replace('T', elem)}>()"
    if ty == f"&Array<{elem}>" or ty == "&Self":
        return f"&other::<{elem}>()"
    m = re.match(r"^Option<Array<(.+)>>$", ty)
    if m or ty == "Option<Self>":
        return "None"
    m = re.match(r"^Option<&Array<(.+)>>$", ty)
    if m:
        return "None"
    m = re.match(r"^Option<impl (\w+)>$", ty)
    if m:
        kind = {"SortKindType": "SortKind", "BitOrderType": "BitOrder", "NormOrdType": "NormOrd",
                "ConvolveModeType": "ConvolveMode", "CompareOpType": "CompareOp"}.get(m.group(1))
        return f"None::<{kind}>" if kind else None
    m = re.match(r"^impl (\w+)$", ty)
    if m:
        val = {"CompareOpType": "CompareOp::Equals", "SortKindType": "SortKind::Quicksort"}.get(m.group(1))
        return val
    return None


def bad_dummy(ty, elem):
    """an OUT-OF-DOMAIN expression of the given argument type (an error receiver must come back unchanged whatever the
    other arguments are: seeded change C09i evaluated an option name before looking at the receiver), or None"""
    ty = ty.strip()
    table = {
        "usize": "99", "isize": "-99", "&[usize]": "&[99usize]", "Vec<usize>": "vec![99usize]", "Vec<isize>": "vec![99isize]",
        "&[isize]": "&[99isize]", "Option<usize>": "Some(99)", "Option<isize>": "Some(-99)",
        "Option<Vec<isize>>": "Some(vec![99isize])", "Option<Vec<usize>>": "Some(vec![99usize])",
        "std::ops::Range<usize>": "7..2",
    }
    if ty in table:
        return table[ty]
    if re.match(r"^Option<impl (\w+)>$", ty):
        return 'Some("bogus")'
    if re.match(r"^impl (\w+)$", ty):
        return '"bogus"'
    return None


def scan():
    methods = []
    for dp, _, fns in os.walk(REPO):
        for fn in sorted(fns):
            if not fn.endswith(".rs"):
                continue
            src = open(os.path.join(dp, fn)).read()
            for m in re.finditer(r"^impl\s*(<[^>]*>)?\s*(\w+)(<[^{]*>)?\s+for\s+Result<Array<(\w+)>,\s*ArrayError>\s*\{", src, re.M):
                trait, elem_var = m.group(2), m.group(4)
                bounds = m.group(1) or ""
                start = m.end()
                depth, i = 1, start
                while depth and i < len(src):
                    depth += {"{": 1, "}": -1}.get(src[i], 0)
                    i += 1
                body = src[start:i]
                for f in re.finditer(r"fn\s+(r#)?(\w+)\s*(<[^(]*>)?\s*\(\s*&self\s*,?([^)]*(?:\([^)]*\)[^)]*)*)\)\s*(->\s*([^{]+))?\{", body):
                    name, generics, args, ret = f.group(2), f.group(3) or "", f.group(4), (f.group(6) or "").strip()
                    methods.append({"file": os.path.relpath(os.path.join(dp, fn), "/repo"), "trait": trait, "bounds": bounds,
                                    "elem_var": elem_var, "name": ("r#" if f.group(1) else "") + name, "generics": generics,
                                    "args": split_args(args), "ret": ret})
    return methods


def elem_for(m):
    b = m["bounds"] + m["file"]
    if "alphanumeric" in m["file"]:
        return "String"
    if "binary_bits" in m["file"]:
        return "u8"
    if "Floating" in b or "floating" in m["file"]:
        return "f64"
    if "linalg" in m["file"] or "NumericOps" in b or "math" in m["file"] or "numeric" in m["file"]:
        return "f64"
    return "i32"


def generate():
    methods = scan()
    covered, uncovered = [], []
    invalid_calls = []
    body = []
    for k, m in enumerate(methods):
        elem = elem_for(m)
        if m["generics"] and "F" in m["generics"]:
            uncovered.append(f"{m['trait']}::{m['name']} (closure argument)"); continue
        vals = []
        ok = True
        for a in m["args"]:
            if ":" not in a:
                ok = False; break
            ty = a.split(":", 1)[1].strip().replace("N", elem) if re.search(r"\bN\b", a) else a.split(":", 1)[1].strip()
            ty = re.sub(r"\bT\b", elem, ty)
            v = dummy(ty, elem)
            if v is None:
                ok = False; break
            vals.append(v)
        if not ok:
            uncovered.append(f"{m['trait']}::{m['name']} (argument types {m['args']})"); continue
        call = f"{m['trait']}::{m['name']}(&recv, {', '.join(vals)})" if vals else f"{m['trait']}::{m['name']}(&recv)"
        body.append(f"    // {m['file']}\n    {{ let recv: Result<Array<{elem}>, ArrayError> = Err(e.clone()); "
                    f"check(&mut bad, \"{m['trait']}::{m['name']}\", {call}.err(), e); n += 1; }}")
        covered.append(f"{m['trait']}::{m['name']}")
        # the same call with out-of-domain values wherever an argument type has one
        bvals, any_bad = [], False
        for a, v in zip(m["args"], vals):
            ty = a.split(":", 1)[1].strip().replace("N", elem) if re.search(r"\bN\b", a) else a.split(":", 1)[1].strip()
            ty = re.sub(r"\bT\b", elem, ty)
            b = bad_dummy(ty, elem)
            if b is not None:
                any_bad = True
            bvals.append(b if b is not None else v)
        if any_bad:
            call = f"{m['trait']}::{m['name']}(&recv, {', '.join(bvals)})"
            body.append(f"    {{ let recv: Result<Array<{elem}>, ArrayError> = Err(e.clone()); "
                        f"check(&mut bad, \"{m['trait']}::{m['name']}#invalid-args\", {call}.err(), e); n += 1; }}")
            invalid_calls.append(f"{m['trait']}::{m['name']}")
    src = ["// generated by tools/inventory.py — do not edit", "#![allow(clippy::all)]", "#![allow(unused_imports)]",
           "use arr_rs::prelude::*;", "",
           "fn other<T: ArrayElement>() -> Array<T> { Array::single(T::one()).unwrap() }",
           "fn check(bad: &mut Vec<String>, name: &str, got: Option<ArrayError>, e: &ArrayError) {",
           "    if got.as_ref() != Some(e) { bad.push(format!(\"{name}:{got:?}\")); }", "}", "",
           "/// calls every covered chainable method on the receiver Err(e); returns (methods called, failures)",
           "pub fn propagate(e: &ArrayError) -> (usize, Vec<String>) {", "    let mut bad: Vec<String> = vec![];", "    let mut n = 0usize;"]
    src += body
    src += ["    (n, bad)", "}", "", f"pub const COVERED: usize = {len(covered)};", f"pub const UNCOVERED: usize = {len(uncovered)};",
            f"pub const WITH_INVALID_ARGS: usize = {len(invalid_calls)};"]
    text = "\n".join(src) + "\n"
    old = open(OUT).read() if os.path.exists(OUT) else None
    if old != text:
        open(OUT, "w").write(text)
    return covered, uncovered


if __name__ == "__main__":
    c, u = generate()
    print(json.dumps({"covered": len(c), "uncovered": u}, indent=1))

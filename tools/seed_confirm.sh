#!/bin/sh
# usage: tools/seed_confirm.sh <name> <worktree> <seeddir>
# confirms, in the scratch worktree: (1) demo passes without the change, (2) suite green with the change, (3) demo fails with it.
# prints one summary line:  CONFIRM <name> demo_without=<exit> suite=<lib passed>/<doc passed>/<failed> demo_with=<exit>
name=$1; wt=$2; sd=$3
cd "$wt" || exit 2
# (never use git stash here: the stash is shared by all worktrees of a repository)
git checkout -q -- .
mkdir -p examples; cp "$sd/demo.rs" examples/seed_demo.rs
cargo run --offline --quiet --example seed_demo >/tmp/seed_out_$name.txt 2>&1; w0=$?
git apply "$sd/patch.diff" || { echo "patch does not apply"; exit 3; }
cargo test --offline >/tmp/seed_suite_$name.txt 2>&1
s=$(grep -E "^test result" /tmp/seed_suite_$name.txt | sed -E 's/.* ([0-9]+) passed; ([0-9]+) failed.*/\1p\2f/' | tr '\n' '/')
cargo run --offline --quiet --example seed_demo >/tmp/seed_out_$name.txt 2>&1; w1=$?
msg=$(grep -m1 -E "panicked|violated" -A1 /tmp/seed_out_$name.txt | tr '\n' ' ' | cut -c1-220)
git checkout -q -- .
echo "CONFIRM $name demo_without=$w0 suite=$s demo_with=$w1 :: $msg"

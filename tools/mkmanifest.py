#!/usr/bin/env python3
"""writes MANIFEST.json from tools/manifest_src.json (one entry per claimed property)"""
import json, os
ROOT = os.path.dirname(os.path.dirname(os.path.abspath(__file__)))
src = json.load(open(os.path.join(ROOT, "tools", "manifest_src.json")))
props = [json.loads(l)["id"] for l in open(os.path.join(ROOT, "properties.jsonl"))]
checks = []
for pid in props:
    c = src["checks"].get(pid)
    if not c:
        continue
    checks.append({
        "property_id": pid,
        "quick_cmd": f"bin/check {pid} --tier quick",
        "thorough_cmd": f"bin/check {pid} --tier thorough",
        "evidence_file": f"/verif/evidence/{pid}.json",
        "replay_cmd_template": f"bin/check {pid} --replay {{path}}",
        "engine": "coq-model-correspondence",
        "level_claimed": {"category": "proof", "text": c["text"], "design_ref": c.get("design_ref", "DESIGN.md §8 " + pid)},
        "level_note": c["note"],
        "technique": c.get("technique", "Coq 8.16 theorems about a hand-written Gallina model + checked model/code correspondence (extracted model vs Rust harness on shared case files)"),
    })
na = [{"property_id": p, "reason": src["not_applicable"].get(p, "check not built yet in this round (work in progress; see DESIGN.md §11)")}
      for p in props if p not in src["checks"]]
m = {
    "version": 1,
    "setup_cmd": "sh setup.sh",
    "hooks": {"guard": "arr_rs_verif", "enable": "RUSTFLAGS=\"--cfg arr_rs_verif\" (no hook is needed: every observation goes through the public API; the flag is passed but guards nothing)",
              "baseline_off_cmd": "cd /repo && cargo test --workspace --no-fail-fast --offline", "source_commits": [], "add_only": True},
    "engines": [{"name": "coq-model-correspondence", "path": "/verif/bin/check", "serves_properties": [c["property_id"] for c in checks],
                 "kind_free_text": "Coq 8.16.1 proofs (coq/props/Cxx.v) about a hand-written executable Gallina model (coq/theories), extracted to OCaml (ExtrOcamlBasic only) and run against a Rust harness linked to /repo's working tree on shared case files"}],
    "checks": checks,
    "notes": src.get("notes", ""),
    "not_applicable": na,
}
json.dump(m, open(os.path.join(ROOT, "MANIFEST.json"), "w"), indent=1)
print("checks:", [c["property_id"] for c in checks], "unclaimed:", [n["property_id"] for n in na])

#!/usr/bin/env python3
"""records the sha256 of every /repo/src/**/*.rs of the tree the model has been validated against (run after all
checks passed on /repo's committed HEAD); bin/check escalates its generators when the working tree differs"""
import json, os, subprocess, sys
sys.path.insert(0, os.path.join(os.path.dirname(os.path.dirname(os.path.abspath(__file__))), "lib"))
import vlib
head = subprocess.check_output(["git", "-C", "/repo", "rev-parse", "HEAD"], text=True).strip()
dirty = subprocess.check_output(["git", "-C", "/repo", "status", "--short"], text=True).strip()
if dirty:
    sys.exit("/repo has uncommitted changes: fingerprint only a committed tree")
json.dump({"repo_head": head, "files": vlib.source_hashes()}, open(vlib.FINGERPRINT, "w"), indent=0, sort_keys=True)
print("fingerprint of", head, "written:", len(vlib.source_hashes()), "files")

#!/usr/bin/env python3
"""usage: tools/seed_keep.py <seed-id> <property> <seeddir> <confirm-line-file> <caught:yes|no> <summary> <needs>
stores a confirmed seeded change as /verif/seeded/<seed-id>/{patch.diff,demo.rs,notes.md,meta.json}"""
import sys, os, json, shutil, re
sid, prop, sd, conf, caught, summary, needs = sys.argv[1:8]
root = os.path.dirname(os.path.dirname(os.path.abspath(__file__)))
dst = os.path.join(root, "seeded", sid)
os.makedirs(dst, exist_ok=True)
for f in ("patch.diff", "demo.rs", "notes.md"):
    if os.path.exists(os.path.join(sd, f)):
        shutil.copy(os.path.join(sd, f), os.path.join(dst, f))
line = ""
for l in open(conf):
    if l.startswith("CONFIRM " + prop + " ") or l.startswith("CONFIRM " + sid + " "):
        line = l.strip()
files = sorted(set(re.findall(r"^\+\+\+ b/(\S+)", open(os.path.join(dst, "patch.diff")).read(), re.M)))
meta = {
    "id": sid, "property": prop, "summary": summary, "needs_to_manifest": needs, "files_changed": files,
    "confirmed": {
        "how": "tools/seed_confirm.sh in a scratch git worktree of /repo: demo (cargo run --example seed_demo) on the unchanged tree, "
               "cargo test --offline with the change, demo with the change",
        "result": line,
    },
    "checks_run": {"how": f"tools/seed_run.sh seeded/{sid}/patch.diff {prop}  (git -C /repo apply; bin/check {prop} --quick; git -C /repo checkout -- .)",
                   "caught_by": ([f"bin/check {prop}"] if caught == "yes" else [])},
}
json.dump(meta, open(os.path.join(dst, "meta.json"), "w"), indent=1)
print("kept", dst)

#!/bin/sh
# usage: tools/seed_run.sh <patch.diff> <prop> [<prop> ...]  — applies the patch to /repo, runs the checks, reverts
patch=$1; shift
git -C /repo status --short | grep -q . && { echo "/repo not clean"; exit 2; }
git -C /repo apply "$patch" || exit 3
for p in "$@"; do
  echo "--- check $p with $(basename $(dirname $patch)) applied"
  timeout 1500 /verif/bin/check $p 2>&1 | grep -E "correspondence:|VIOLATION|KNOWN-FINDING|proof step|law:|impl " | cut -c1-260 | head -12
done
git -C /repo checkout -- .
git -C /repo status --short

"""whitespace-tolerant exact replacement helper for preparing fix commits (not used by any check)"""
import re


def rep(s, old, new, cnt=1):
    parts = [re.escape(l.strip()) for l in old.strip().split("\n")]
    pat = r"[ \t]*" + r"\s*\n\s*".join(parts)
    found = re.findall(pat, s)
    assert len(found) == cnt, (old, len(found))
    return re.sub(pat, lambda m: new.rstrip("\n"), s)

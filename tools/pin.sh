#!/bin/sh
# regenerate coq/props.pins (sha256 of every props/Cxx.v) — run deliberately after editing a property file
cd /verif/coq/props && sha256sum C??.v | sed 's/  / /' > ../props.pins && cat ../props.pins | wc -l

#!/bin/sh
# usage: tools/seed_prepare.sh <tag> <property-id>   -> creates /tmp/wt_<tag> (detached worktree of /repo HEAD) and /tmp/seed_<tag>/property.txt
tag=$1; prop=$2
git -C /repo worktree add --detach -q /tmp/wt_$tag HEAD || exit 1
mkdir -p /tmp/seed_$tag
python3 - "$prop" > /tmp/seed_$tag/property.txt <<'PY'
import json, sys
for l in open('/verif/properties.jsonl'):
    p = json.loads(l)
    if p['id'] == sys.argv[1]:
        print(p['id'] + ': ' + p['title'] + '\n\nStatement: ' + p['statement'] + '\n\nQuantifier: ' + p['quantifier']['text'] +
              '\n\nWhy tests cannot settle it: ' + p['why_tests_cant'] + '\n\nAnchors: ' + json.dumps(p['anchors']))
PY
echo prepared $tag

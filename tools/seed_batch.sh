#!/bin/sh
# usage: tools/seed_batch.sh <suffix> <prop> [<prop> ...]
# prepares one scratch worktree + property text per property (tag = <prop><suffix>), appending an AVOID line that
# lists what earlier seeded changes of that property did, and prints the prompt file path for each.
suf=$1; shift
for p in "$@"; do
  tag=$p$suf
  sh /verif/tools/seed_prepare.sh $tag $p || continue
  python3 - $p >> /tmp/seed_$tag/property.txt <<'PY'
import json, glob, sys
s = [json.load(open(f)) for f in sorted(glob.glob('/verif/seeded/*/meta.json'))]
s = [m['summary'] for m in s if m['property'] == sys.argv[1]]
if s:
    print('\nAVOID (already seeded by other engineers; pick a different function / clause): ' + ' | '.join(s))
PY
  sed "s/TAG/$tag/g" ${SEED_PROMPT:-/verif/tools/seed_prompt.txt} > /tmp/seed_$tag/prompt.txt
done

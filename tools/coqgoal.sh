#!/bin/sh
# usage: tools/coqgoal.sh theories/File.v <line>  — prints the goal after the first <line> lines of the file (debug aid)
f=$1; n=$2
cd /verif/coq
tmp=theories/Zz_goal_tmp.v
{ head -n "$n" "$f"; echo "Show."; } > $tmp
timeout 300 coqc -Q theories ArrRs -Q props ArrRsProps -w -notation-overridden,-deprecated-hint-without-locality $tmp 2>&1 | grep -v "^Error: There are pending proofs\|^File.*Zz_goal" | tail -${3:-40}
rm -f $tmp theories/Zz_goal_tmp.vo theories/Zz_goal_tmp.glob theories/.Zz_goal_tmp.aux theories/Zz_goal_tmp.vos theories/Zz_goal_tmp.vok
